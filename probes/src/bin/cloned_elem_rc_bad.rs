#![allow(unused, clippy::all)]
use orx_concurrent_iter::*;
use std::rc::Rc;
pub fn main() {
    let v: Vec<Rc<u32>> = (0..64).map(Rc::new).collect();
    let it = v.as_slice().into_con_iter().cloned();
    std::thread::scope(|s| {
        s.spawn(|| { while let Some(x) = it.next() { let _c = x.clone(); } });
        for k in &v { let _c = k.clone(); }
    });
}
