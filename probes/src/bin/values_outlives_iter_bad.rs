#![allow(unused, clippy::all)]
use orx_concurrent_iter::*;
pub fn main() {
    let mut vals;
    {
        let v: Vec<String> = (0..8).map(|i| i.to_string()).collect();
        let it = v.into_con_iter();
        vals = it.values();
    }
    assert_eq!(vals.next().unwrap().len(), 1);
}
