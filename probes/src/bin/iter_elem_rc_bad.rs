#![allow(unused, clippy::all)]
use orx_concurrent_iter::*;
use std::rc::Rc;
pub fn main() {
    let keep: Vec<Rc<u32>> = (0..64).map(Rc::new).collect();
    let it = keep.clone().into_iter().into_con_iter();
    std::thread::scope(|s| {
        s.spawn(|| { while let Some(x) = it.next() { let _c = x.clone(); } });
        for k in &keep { let _c = k.clone(); }
    });
}
