#![allow(unused, clippy::all)]
use orx_concurrent_iter::*;
use std::sync::atomic::{AtomicU32, Ordering};
pub fn main() {
    let a: [AtomicU32; 8] = std::array::from_fn(|i| AtomicU32::new(i as u32));
    let it = a.con_iter();
    std::thread::scope(|s| {
        s.spawn(|| { while let Some(x) = it.next() { x.fetch_add(1, Ordering::Relaxed); } });
        for x in &a { x.fetch_add(1, Ordering::Relaxed); }
    });
}
