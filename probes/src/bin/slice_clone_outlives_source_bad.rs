#![allow(unused, clippy::all)]
use orx_concurrent_iter::*;
pub fn main() {
    let c;
    {
        let v: Vec<String> = (0..8).map(|i| i.to_string()).collect();
        let it = v.con_iter();
        c = it.clone();
    }
    assert_eq!(c.next().unwrap().len(), 1);
}
