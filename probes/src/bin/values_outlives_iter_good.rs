#![allow(unused, clippy::all)]
use orx_concurrent_iter::*;
pub fn main() {
    let v: Vec<String> = (0..8).map(|i| i.to_string()).collect();
    let it = v.into_con_iter();
    let mut vals = it.values();
    assert_eq!(vals.next().unwrap().len(), 1);
    let mut ids = it.ids_and_values();
    assert_eq!(ids.next().unwrap().0, 1);
}
