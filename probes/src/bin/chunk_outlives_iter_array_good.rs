#![allow(unused, clippy::all)]
use orx_concurrent_iter::*;
pub fn main() {
    let a: [String; 8] = std::array::from_fn(|i| i.to_string());
    let it = a.into_con_iter();
    let c = it.next_chunk(3).unwrap();
    assert_eq!(c.values.count(), 3);
}
