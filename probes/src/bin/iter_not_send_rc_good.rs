#![allow(unused, clippy::all)]
use orx_concurrent_iter::*;
use std::sync::atomic::{AtomicU32, Ordering};
use std::sync::Arc;
pub fn main() {
    let rc = Arc::new(AtomicU32::new(0));
    let rc2 = rc.clone();
    let it = (0..64u32).map(move |x| { rc2.fetch_add(1, Ordering::Relaxed); let _c = rc2.clone(); x }).into_con_iter();
    std::thread::scope(|s| {
        s.spawn(|| { while let Some(_x) = it.next() {} });
        for _ in 0..64 { let _c = rc.clone(); rc.fetch_add(1, Ordering::Relaxed); }
    });
}
