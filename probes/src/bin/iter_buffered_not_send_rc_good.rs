#![allow(unused, clippy::all)]
use orx_concurrent_iter::*;
use std::sync::atomic::{AtomicU32, Ordering};
use std::sync::Arc;
pub fn main() {
    let rc = Arc::new(AtomicU32::new(0));
    let rc2 = rc.clone();
    let it = (0..64u32).filter(move |_| { rc2.fetch_add(1, Ordering::Relaxed); true }).into_con_iter();
    std::thread::scope(|s| {
        s.spawn(|| { let mut b = it.buffered_iter(4); while let Some(c) = b.next() { let _ = c.values.count(); } });
        for _ in 0..64 { rc.fetch_add(1, Ordering::Relaxed); }
    });
}
