#![allow(unused, clippy::all)]
use orx_concurrent_iter::*;
pub fn main() {
    let v: Vec<String> = (0..8).map(|i| i.to_string()).collect();
    let r;
    {
        let it = v.con_iter();
        r = it.next().unwrap();
    }
    assert_eq!(r.len(), 1);
}
