#![allow(unused, clippy::all)]
use orx_concurrent_iter::*;
use std::cell::Cell;
use std::rc::Rc;
pub fn main() {
    let rc = Rc::new(Cell::new(0u32));
    let rc2 = rc.clone();
    let it = (0..64u32).filter(move |_| { rc2.set(rc2.get() + 1); true }).into_con_iter();
    std::thread::scope(|s| {
        s.spawn(|| { let mut b = it.buffered_iter(4); while let Some(c) = b.next() { let _ = c.values.count(); } });
        for _ in 0..64 { rc.set(rc.get() + 1); }
    });
}
