#![allow(unused, clippy::all)]
use orx_concurrent_iter::*;
#[derive(Clone, Copy)]
struct P(*const std::cell::Cell<u32>);
pub fn main() {
    let cell = std::cell::Cell::new(0u32);
    let v: Vec<P> = (0..64).map(|_| P(&cell)).collect();
    let it = v.con_iter().copied();
    std::thread::scope(|s| {
        s.spawn(|| { while let Some(p) = it.next() { unsafe { (*p.0).set((*p.0).get() + 1) } } });
        for _ in 0..64 { cell.set(cell.get() + 1); }
    });
}
