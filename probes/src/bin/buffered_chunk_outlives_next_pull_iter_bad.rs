#![allow(unused, clippy::all)]
use orx_concurrent_iter::*;
pub fn main() {
    let it = (0..8).map(|i: usize| i.to_string()).into_con_iter();
    let mut b = it.buffered_iter(2);
    let c1 = b.next().unwrap();
    let c2 = b.next().unwrap();
    assert_eq!(c1.values.count() + c2.values.count(), 4);
}
