#![allow(unused, clippy::all)]
use orx_concurrent_iter::*;
use std::sync::atomic::{AtomicU32, Ordering};
pub fn main() {
    let v: Vec<AtomicU32> = (0..64).map(AtomicU32::new).collect();
    let it = v.as_slice().into_con_iter();
    std::thread::scope(|s| {
        s.spawn(|| { while let Some(c) = it.next_chunk(4) { for x in c.values { x.fetch_add(1, Ordering::Relaxed); } } });
        for x in &v { x.fetch_add(1, Ordering::Relaxed); }
    });
}
