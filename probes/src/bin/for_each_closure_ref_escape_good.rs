#![allow(unused, clippy::all)]
use orx_concurrent_iter::*;
pub fn main() {
    let v: Vec<String> = (0..8).map(|i| i.to_string()).collect();
    let mut out: Vec<&String> = Vec::new();
    {
        let it = v.con_iter();
        it.for_each(2, |x| out.push(x));
    }
    assert_eq!(out.len(), 8);
}
