#![allow(unused, clippy::all)]
use orx_concurrent_iter::*;
use std::rc::Rc;
pub fn main() {
    let keep = Rc::new(5u32);
    let it = ConIterOfArray::new([keep.clone(), keep.clone(), keep.clone()]);
    let h = std::thread::spawn(move || drop(it));
    for _ in 0..64 { let _c = keep.clone(); }
    h.join().unwrap();
}
