#![allow(unused, clippy::all)]
use orx_concurrent_iter::*;
#[derive(Clone, Copy)]
struct P(usize);
pub fn main() {
    let v: Vec<P> = (0..64).map(P).collect();
    let it = v.con_iter().copied();
    let total = std::sync::atomic::AtomicUsize::new(0);
    std::thread::scope(|s| {
        s.spawn(|| { while let Some(p) = it.next() { total.fetch_add(p.0, std::sync::atomic::Ordering::Relaxed); } });
    });
    assert_eq!(total.into_inner(), 63 * 64 / 2);
}
