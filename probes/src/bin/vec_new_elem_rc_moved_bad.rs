#![allow(unused, clippy::all)]
use orx_concurrent_iter::*;
use std::rc::Rc;
pub fn main() {
    // direct constructor instead of into_con_iter; the iterator is moved to another thread and dropped there
    let keep = Rc::new(5u32);
    let it = ConIterOfVec::new(vec![keep.clone(), keep.clone(), keep.clone(), keep.clone()]);
    let h = std::thread::spawn(move || drop(it));
    for _ in 0..64 { let _c = keep.clone(); }
    h.join().unwrap();
}
