#![allow(unused, clippy::all)]
use orx_concurrent_iter::*;
use std::cell::Cell;
pub fn main() {
    let v: Vec<Cell<u32>> = (0..64).map(Cell::new).collect();
    let it: ConIterOfSlice<Cell<u32>> = v.as_slice().into();
    std::thread::scope(|s| {
        s.spawn(|| { while let Some(x) = it.next() { x.set(x.get() + 1); } });
        for x in &v { x.set(x.get() + 1); }
    });
}
