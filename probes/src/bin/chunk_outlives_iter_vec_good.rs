#![allow(unused, clippy::all)]
use orx_concurrent_iter::*;
pub fn main() {
    let v: Vec<String> = (0..8).map(|i| i.to_string()).collect();
    let it = v.into_con_iter();
    let c = it.next_chunk(3).unwrap();
    assert_eq!(c.values.count(), 3);
}
