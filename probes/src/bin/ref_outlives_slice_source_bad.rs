#![allow(unused, clippy::all)]
use orx_concurrent_iter::*;
pub fn main() {
    let r;
    {
        let v: Vec<String> = (0..8).map(|i| i.to_string()).collect();
        let it = v.as_slice().into_con_iter();
        r = it.into_seq_iter().next().unwrap();
    }
    assert_eq!(r.len(), 1);
}
