#![allow(unused, clippy::all)]
use orx_concurrent_iter::*;
use std::sync::atomic::{AtomicU32, Ordering};
pub fn main() {
    let v: Vec<AtomicU32> = (0..64).map(AtomicU32::new).collect();
    let it: ConIterOfSlice<AtomicU32> = v.as_slice().into();
    std::thread::scope(|s| {
        s.spawn(|| { while let Some(x) = it.next() { x.fetch_add(1, Ordering::Relaxed); } });
        for x in &v { x.fetch_add(1, Ordering::Relaxed); }
    });
}
