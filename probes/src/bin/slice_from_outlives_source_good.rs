#![allow(unused, clippy::all)]
use orx_concurrent_iter::*;
pub fn main() {
    let v: Vec<String> = (0..8).map(|i| i.to_string()).collect();
    let it: ConIterOfSlice<String> = v.as_slice().into();
    assert_eq!(it.next_chunk(2).unwrap().values.count(), 2);
}
