#![allow(unused, clippy::all)]
use orx_concurrent_iter::*;
pub fn main() {
    let v: Vec<String> = (0..8).map(|i| i.to_string()).collect();
    let it = ConIterOfSlice::new(v.as_slice());
    assert_eq!(it.next().unwrap().len(), 1);
}
