#![allow(unused, clippy::all)]
use orx_concurrent_iter::*;
use std::rc::Rc;
pub fn main() {
    let keep: [Rc<u32>; 8] = std::array::from_fn(|i| Rc::new(i as u32));
    let a: [Rc<u32>; 8] = std::array::from_fn(|i| keep[i].clone());
    let it = a.into_con_iter();
    std::thread::scope(|s| {
        s.spawn(|| { while let Some(x) = it.next() { let _c = x.clone(); } });
        for k in &keep { let _c = k.clone(); }
    });
}
