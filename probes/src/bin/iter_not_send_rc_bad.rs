#![allow(unused, clippy::all)]
use orx_concurrent_iter::*;
use std::cell::Cell;
use std::rc::Rc;
pub fn main() {
    // the wrapped iterator itself is not Send: it owns an Rc that the spawning thread keeps using
    let rc = Rc::new(Cell::new(0u32));
    let rc2 = rc.clone();
    let it = (0..64u32).map(move |x| { rc2.set(rc2.get() + 1); let _c = rc2.clone(); x }).into_con_iter();
    std::thread::scope(|s| {
        s.spawn(|| { while let Some(_x) = it.next() {} });
        for _ in 0..64 { let _c = rc.clone(); rc.set(rc.get() + 1); }
    });
}
