#![allow(unused, clippy::all)]
use orx_concurrent_iter::*;
pub fn main() {
    let r;
    {
        let a: [String; 4] = std::array::from_fn(|i| i.to_string());
        let it = a.con_iter();
        r = it.next_chunk(2).unwrap().values.last().unwrap();
    }
    assert_eq!(r.len(), 1);
}
