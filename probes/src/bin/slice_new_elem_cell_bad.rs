#![allow(unused, clippy::all)]
use orx_concurrent_iter::*;
use std::cell::Cell;
pub fn main() {
    let v: Vec<Cell<u32>> = (0..64).map(Cell::new).collect();
    let it = ConIterOfSlice::new(v.as_slice());
    std::thread::scope(|s| {
        s.spawn(|| { let mut b = it.buffered_iter(4); while let Some(c) = b.next() { for x in c.values { x.set(x.get() + 1); } } });
        for x in &v { x.set(x.get() + 1); }
    });
}
