#![allow(unused, clippy::all)]
use orx_concurrent_iter::*;
use std::sync::Arc;
pub fn main() {
    let keep: [Arc<u32>; 8] = std::array::from_fn(|i| Arc::new(i as u32));
    let a: [Arc<u32>; 8] = std::array::from_fn(|i| keep[i].clone());
    let it = a.into_con_iter();
    std::thread::scope(|s| {
        s.spawn(|| { while let Some(x) = it.next() { let _c = x.clone(); } });
        for k in &keep { let _c = k.clone(); }
    });
}
