#![allow(unused, clippy::all)]
use orx_concurrent_iter::*;
use std::sync::Arc;
pub fn main() {
    let keep = Arc::new(5u32);
    let it: ConIterOfVec<Arc<u32>> = vec![keep.clone(), keep.clone(), keep.clone()].into();
    let h = std::thread::spawn(move || drop(it));
    for _ in 0..64 { let _c = keep.clone(); }
    h.join().unwrap();
}
