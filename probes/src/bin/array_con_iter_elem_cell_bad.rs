#![allow(unused, clippy::all)]
use orx_concurrent_iter::*;
use std::cell::Cell;
pub fn main() {
    let a: [Cell<u32>; 8] = std::array::from_fn(|i| Cell::new(i as u32));
    let it = a.con_iter();
    std::thread::scope(|s| {
        s.spawn(|| { while let Some(x) = it.next() { x.set(x.get() + 1); } });
        for x in &a { x.set(x.get() + 1); }
    });
}
