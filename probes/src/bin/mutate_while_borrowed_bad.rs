#![allow(unused, clippy::all)]
use orx_concurrent_iter::*;
pub fn main() {
    let mut v: Vec<String> = (0..8).map(|i| i.to_string()).collect();
    let it = v.con_iter();
    let first = it.next().unwrap();
    v.push("x".to_string());
    assert_eq!(first.len(), 1);
}
