#![allow(unused, clippy::all)]
use orx_concurrent_iter::*;
#[path = "array_con_iter_elem_cell_good.rs"]
mod array_con_iter_elem_cell_good;
#[path = "array_into_elem_rc_good.rs"]
mod array_into_elem_rc_good;
#[path = "array_new_elem_rc_moved_good.rs"]
mod array_new_elem_rc_moved_good;
#[path = "buffered_chunk_outlives_next_pull_good.rs"]
mod buffered_chunk_outlives_next_pull_good;
#[path = "buffered_chunk_outlives_next_pull_iter_good.rs"]
mod buffered_chunk_outlives_next_pull_iter_good;
#[path = "buffered_iter_outlives_iter_good.rs"]
mod buffered_iter_outlives_iter_good;
#[path = "chunk_outlives_iter_array_good.rs"]
mod chunk_outlives_iter_array_good;
#[path = "chunk_outlives_iter_vec_good.rs"]
mod chunk_outlives_iter_vec_good;
#[path = "cloned_elem_rc_good.rs"]
mod cloned_elem_rc_good;
#[path = "cloned_outlives_source_good.rs"]
mod cloned_outlives_source_good;
#[path = "copied_elem_rawptr_good.rs"]
mod copied_elem_rawptr_good;
#[path = "custom_atomic_iter_cloned_not_sync_good.rs"]
mod custom_atomic_iter_cloned_not_sync_good;
#[path = "custom_atomic_iter_copied_not_sync_good.rs"]
mod custom_atomic_iter_copied_not_sync_good;
#[path = "for_each_closure_ref_escape_good.rs"]
mod for_each_closure_ref_escape_good;
#[path = "iter_buffered_not_send_rc_good.rs"]
mod iter_buffered_not_send_rc_good;
#[path = "iter_elem_rc_good.rs"]
mod iter_elem_rc_good;
#[path = "iter_new_elem_rc_moved_good.rs"]
mod iter_new_elem_rc_moved_good;
#[path = "iter_new_outlives_source_good.rs"]
mod iter_new_outlives_source_good;
#[path = "iter_not_send_rc_good.rs"]
mod iter_not_send_rc_good;
#[path = "move_vec_iter_elem_rc_good.rs"]
mod move_vec_iter_elem_rc_good;
#[path = "mutate_while_borrowed_good.rs"]
mod mutate_while_borrowed_good;
#[path = "ref_outlives_array_good.rs"]
mod ref_outlives_array_good;
#[path = "ref_outlives_slice_source_good.rs"]
mod ref_outlives_slice_source_good;
#[path = "ref_outlives_vec_good.rs"]
mod ref_outlives_vec_good;
#[path = "slice_clone_outlives_source_good.rs"]
mod slice_clone_outlives_source_good;
#[path = "slice_from_elem_cell_shared_good.rs"]
mod slice_from_elem_cell_shared_good;
#[path = "slice_from_outlives_source_good.rs"]
mod slice_from_outlives_source_good;
#[path = "slice_into_elem_cell_good.rs"]
mod slice_into_elem_cell_good;
#[path = "slice_new_elem_cell_good.rs"]
mod slice_new_elem_cell_good;
#[path = "slice_new_outlives_source_good.rs"]
mod slice_new_outlives_source_good;
#[path = "values_outlives_iter_good.rs"]
mod values_outlives_iter_good;
#[path = "vec_con_iter_elem_cell_good.rs"]
mod vec_con_iter_elem_cell_good;
#[path = "vec_from_elem_rc_moved_good.rs"]
mod vec_from_elem_rc_moved_good;
#[path = "vec_into_elem_rc_good.rs"]
mod vec_into_elem_rc_good;
#[path = "vec_new_elem_rc_moved_good.rs"]
mod vec_new_elem_rc_moved_good;
#[path = "wrapped_iter_outlives_source_good.rs"]
mod wrapped_iter_outlives_source_good;

fn share_all_valid() {
    // every iterator type can be shared and moved across threads when its element type allows it
    use std::sync::atomic::{AtomicUsize, Ordering};
    let total = AtomicUsize::new(0);
    let v: Vec<usize> = (0..32).collect();
    let a: [usize; 8] = std::array::from_fn(|i| i);
    let i1 = v.con_iter();
    let i2 = v.clone().into_con_iter();
    let i3 = a.into_con_iter();
    let i4 = ConcurrentIterable::con_iter(&(0..32usize));
    let i5 = v.iter().map(|x| *x).into_con_iter();
    let i6 = v.con_iter().cloned();
    let i7 = v.con_iter().copied();
    std::thread::scope(|s| {
        for _ in 0..2 {
            s.spawn(|| { while let Some(x) = i1.next() { total.fetch_add(*x, Ordering::Relaxed); } });
            s.spawn(|| { while let Some(x) = i2.next() { total.fetch_add(x, Ordering::Relaxed); } });
            s.spawn(|| { while let Some(x) = i3.next() { total.fetch_add(x, Ordering::Relaxed); } });
            s.spawn(|| { while let Some(x) = i4.next() { total.fetch_add(x, Ordering::Relaxed); } });
            s.spawn(|| { while let Some(x) = i5.next() { total.fetch_add(x, Ordering::Relaxed); } });
            s.spawn(|| { while let Some(x) = i6.next() { total.fetch_add(x, Ordering::Relaxed); } });
            s.spawn(|| { while let Some(x) = i7.next() { total.fetch_add(x, Ordering::Relaxed); } });
        }
    });
    assert_eq!(total.into_inner(), 496 * 6 + 28);
    let moved = vec![1usize, 2, 3].into_con_iter();
    assert_eq!(std::thread::spawn(move || moved.into_seq_iter().sum::<usize>()).join().unwrap(), 6);
}
fn main() {
    array_con_iter_elem_cell_good::main();
    array_into_elem_rc_good::main();
    array_new_elem_rc_moved_good::main();
    buffered_chunk_outlives_next_pull_good::main();
    buffered_chunk_outlives_next_pull_iter_good::main();
    buffered_iter_outlives_iter_good::main();
    chunk_outlives_iter_array_good::main();
    chunk_outlives_iter_vec_good::main();
    cloned_elem_rc_good::main();
    cloned_outlives_source_good::main();
    copied_elem_rawptr_good::main();
    custom_atomic_iter_cloned_not_sync_good::main();
    custom_atomic_iter_copied_not_sync_good::main();
    for_each_closure_ref_escape_good::main();
    iter_buffered_not_send_rc_good::main();
    iter_elem_rc_good::main();
    iter_new_elem_rc_moved_good::main();
    iter_new_outlives_source_good::main();
    iter_not_send_rc_good::main();
    move_vec_iter_elem_rc_good::main();
    mutate_while_borrowed_good::main();
    ref_outlives_array_good::main();
    ref_outlives_slice_source_good::main();
    ref_outlives_vec_good::main();
    slice_clone_outlives_source_good::main();
    slice_from_elem_cell_shared_good::main();
    slice_from_outlives_source_good::main();
    slice_into_elem_cell_good::main();
    slice_new_elem_cell_good::main();
    slice_new_outlives_source_good::main();
    values_outlives_iter_good::main();
    vec_con_iter_elem_cell_good::main();
    vec_from_elem_rc_moved_good::main();
    vec_into_elem_rc_good::main();
    vec_new_elem_rc_moved_good::main();
    wrapped_iter_outlives_source_good::main();
    share_all_valid();
    println!("all good twins ran");
}
