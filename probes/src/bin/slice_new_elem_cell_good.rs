#![allow(unused, clippy::all)]
use orx_concurrent_iter::*;
use std::sync::atomic::{AtomicU32, Ordering};
pub fn main() {
    let v: Vec<AtomicU32> = (0..64).map(AtomicU32::new).collect();
    let it = ConIterOfSlice::new(v.as_slice());
    std::thread::scope(|s| {
        s.spawn(|| { let mut b = it.buffered_iter(4); while let Some(c) = b.next() { for x in c.values { x.fetch_add(1, Ordering::Relaxed); } } });
        for x in &v { x.fetch_add(1, Ordering::Relaxed); }
    });
}
