#![allow(unused, clippy::all)]
use orx_concurrent_iter::*;
pub fn main() {
    let v: Vec<String> = (0..8).map(|i| i.to_string()).collect();
    let it = v.into_con_iter();
    let mut b = it.buffered_iter(2);
    assert_eq!(b.next().unwrap().values.count(), 2);
}
