#![allow(unused, clippy::all)]
use orx_concurrent_iter::*;
use orx_concurrent_iter::iter::atomic_iter::AtomicIter;
/// a user-defined implementor of the public AtomicIter trait over a slice, counting its calls in a Cell
struct Mine<'a> { slice: &'a [u32], counter: AtomicCounter, calls: std::cell::Cell<usize> }
impl<'a> AtomicIter<&'a u32> for Mine<'a> {
    fn counter(&self) -> &AtomicCounter { &self.counter }
    fn progress_and_get_begin_idx(&self, n: usize) -> Option<usize> {
        let b = self.counter.fetch_and_add(n);
        if b < self.slice.len() { Some(b) } else { None }
    }
    fn get(&self, i: usize) -> Option<&'a u32> { self.calls.set(self.calls.get() + 1); self.slice.get(i) }
    fn fetch_n(&self, n: usize) -> Option<NextChunk<&'a u32, impl ExactSizeIterator<Item = &'a u32>>> {
        let b = self.progress_and_get_begin_idx(n)?;
        let e = (b + n).min(self.slice.len());
        Some(NextChunk { begin_idx: b, values: self.slice[b..e].iter() })
    }
    fn early_exit(&self) { self.counter.store(self.slice.len()) }
}
pub fn main() {
    let data: Vec<u32> = (0..64).collect();
    let mine = Mine { slice: &data, counter: AtomicCounter::new(), calls: std::cell::Cell::new(0) };
    // cloned() wraps any AtomicIter<&T> into a type that is Send + Sync
    let it = mine.cloned();
    std::thread::scope(|s| {
        for _ in 0..2 {
            s.spawn(|| { while let Some(x) = it.fetch_one() { let _ = x.value; } });
        }
    });
}
