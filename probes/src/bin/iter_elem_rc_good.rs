#![allow(unused, clippy::all)]
use orx_concurrent_iter::*;
use std::sync::Arc;
pub fn main() {
    let keep: Vec<Arc<u32>> = (0..64).map(Arc::new).collect();
    let it = keep.clone().into_iter().into_con_iter();
    std::thread::scope(|s| {
        s.spawn(|| { while let Some(x) = it.next() { let _c = x.clone(); } });
        for k in &keep { let _c = k.clone(); }
    });
}
