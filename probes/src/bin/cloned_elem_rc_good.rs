#![allow(unused, clippy::all)]
use orx_concurrent_iter::*;
use std::sync::Arc;
pub fn main() {
    let v: Vec<Arc<u32>> = (0..64).map(Arc::new).collect();
    let it = v.as_slice().into_con_iter().cloned();
    std::thread::scope(|s| {
        s.spawn(|| { while let Some(x) = it.next() { let _c = x.clone(); } });
        for k in &v { let _c = k.clone(); }
    });
}
