//! Small utilities: PRNG, FNV hash, JSON writer, argument parsing. No third-party crates.

use std::collections::BTreeMap;
use std::fmt::Write as _;

#[derive(Clone, Debug)]
pub struct Rng(pub u64);

impl Rng {
    pub fn new(seed: u64) -> Self {
        Rng(seed ^ 0x9E37_79B9_7F4A_7C15)
    }
    #[inline]
    pub fn next_u64(&mut self) -> u64 {
        self.0 = self.0.wrapping_add(0x9E37_79B9_7F4A_7C15);
        let mut z = self.0;
        z = (z ^ (z >> 30)).wrapping_mul(0xBF58_476D_1CE4_E5B9);
        z = (z ^ (z >> 27)).wrapping_mul(0x94D0_49BB_1331_11EB);
        z ^ (z >> 31)
    }
    /// uniform in 0..n (n > 0)
    #[inline]
    pub fn below(&mut self, n: usize) -> usize {
        (self.next_u64() % (n as u64)) as usize
    }
    /// uniform in lo..=hi
    pub fn range(&mut self, lo: usize, hi: usize) -> usize {
        lo + self.below(hi - lo + 1)
    }
    /// true with probability num/den
    pub fn chance(&mut self, num: u32, den: u32) -> bool {
        (self.next_u64() % den as u64) < num as u64
    }
    pub fn pick<'a, T>(&mut self, xs: &'a [T]) -> &'a T {
        &xs[self.below(xs.len())]
    }
    pub fn fork(&mut self) -> Rng {
        Rng::new(self.next_u64())
    }
}

pub fn mix(a: u64, b: u64) -> u64 {
    let mut r = Rng::new(a.wrapping_mul(0x100000001B3) ^ b.rotate_left(17));
    r.next_u64()
}

#[derive(Clone, Copy)]
pub struct Fnv(pub u64);
impl Fnv {
    pub fn new() -> Self {
        Fnv(0xcbf29ce484222325)
    }
    #[inline]
    pub fn add(&mut self, x: u64) {
        for i in 0..8 {
            self.0 ^= (x >> (i * 8)) & 0xff;
            self.0 = self.0.wrapping_mul(0x100000001b3);
        }
    }
    pub fn add_str(&mut self, s: &str) {
        for b in s.bytes() {
            self.0 ^= b as u64;
            self.0 = self.0.wrapping_mul(0x100000001b3);
        }
    }
}

// ---------------------------------------------------------------- JSON

#[derive(Clone, Debug)]
pub enum J {
    Null,
    B(bool),
    I(i128),
    F(f64),
    S(String),
    A(Vec<J>),
    O(Vec<(String, J)>),
}

impl J {
    pub fn obj() -> J {
        J::O(Vec::new())
    }
    pub fn set(mut self, k: &str, v: J) -> J {
        if let J::O(ref mut m) = self {
            m.push((k.to_string(), v));
        }
        self
    }
    pub fn put(&mut self, k: &str, v: J) {
        if let J::O(ref mut m) = self {
            m.push((k.to_string(), v));
        }
    }
    pub fn s(x: &str) -> J {
        J::S(x.to_string())
    }
    pub fn u(x: usize) -> J {
        J::I(x as i128)
    }
    pub fn u64(x: u64) -> J {
        J::I(x as i128)
    }
    pub fn from_map(m: &BTreeMap<String, u64>) -> J {
        J::O(m.iter().map(|(k, v)| (k.clone(), J::u64(*v))).collect())
    }
    pub fn render(&self) -> String {
        let mut s = String::new();
        self.write(&mut s);
        s
    }
    fn write(&self, out: &mut String) {
        match self {
            J::Null => out.push_str("null"),
            J::B(b) => out.push_str(if *b { "true" } else { "false" }),
            J::I(i) => {
                let _ = write!(out, "{}", i);
            }
            J::F(f) => {
                if f.is_finite() {
                    let _ = write!(out, "{}", f);
                } else {
                    out.push_str("null")
                }
            }
            J::S(s) => {
                out.push('"');
                for c in s.chars() {
                    match c {
                        '"' => out.push_str("\\\""),
                        '\\' => out.push_str("\\\\"),
                        '\n' => out.push_str("\\n"),
                        '\r' => out.push_str("\\r"),
                        '\t' => out.push_str("\\t"),
                        c if (c as u32) < 0x20 => {
                            let _ = write!(out, "\\u{:04x}", c as u32);
                        }
                        c => out.push(c),
                    }
                }
                out.push('"');
            }
            J::A(a) => {
                out.push('[');
                for (i, x) in a.iter().enumerate() {
                    if i > 0 {
                        out.push(',');
                    }
                    x.write(out);
                }
                out.push(']');
            }
            J::O(m) => {
                out.push('{');
                for (i, (k, v)) in m.iter().enumerate() {
                    if i > 0 {
                        out.push(',');
                    }
                    J::S(k.clone()).write(out);
                    out.push(':');
                    v.write(out);
                }
                out.push('}');
            }
        }
    }
}

/// writes a set of 64-bit hashes (little endian) for the driver to unite across shards
pub fn write_hashes<'a>(path: Option<&str>, hashes: impl Iterator<Item = &'a u64>) {
    if let Some(p) = path {
        let mut buf = Vec::new();
        for h in hashes {
            buf.extend_from_slice(&h.to_le_bytes());
        }
        let _ = std::fs::write(p, buf);
    }
}

// ---------------------------------------------------------------- args

pub struct Args {
    pub pos: Vec<String>,
    pub kv: BTreeMap<String, String>,
}

impl Args {
    pub fn parse(args: impl Iterator<Item = String>) -> Args {
        let mut pos = Vec::new();
        let mut kv = BTreeMap::new();
        let v: Vec<String> = args.collect();
        let mut i = 0;
        while i < v.len() {
            let a = &v[i];
            if let Some(k) = a.strip_prefix("--") {
                if let Some((k, val)) = k.split_once('=') {
                    kv.insert(k.to_string(), val.to_string());
                } else if i + 1 < v.len() && !v[i + 1].starts_with("--") {
                    kv.insert(k.to_string(), v[i + 1].clone());
                    i += 1;
                } else {
                    kv.insert(k.to_string(), "1".to_string());
                }
            } else {
                pos.push(a.clone());
            }
            i += 1;
        }
        Args { pos, kv }
    }
    pub fn get(&self, k: &str) -> Option<&str> {
        self.kv.get(k).map(|s| s.as_str())
    }
    pub fn str(&self, k: &str, d: &str) -> String {
        self.get(k).unwrap_or(d).to_string()
    }
    pub fn u64(&self, k: &str, d: u64) -> u64 {
        self.get(k).map(|s| s.parse().expect("bad integer argument")).unwrap_or(d)
    }
    pub fn usize(&self, k: &str, d: usize) -> usize {
        self.u64(k, d as u64) as usize
    }
    pub fn flag(&self, k: &str) -> bool {
        self.get(k).map(|v| v != "0").unwrap_or(false)
    }
    pub fn list(&self, k: &str, d: &str) -> Vec<String> {
        self.str(k, d).split(',').filter(|s| !s.is_empty()).map(|s| s.to_string()).collect()
    }
}
