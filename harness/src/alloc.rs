//! E7: counting global allocator (wraps the system allocator; remembers no addresses, so it hides
//! nothing from LeakSanitizer / memcheck / Miri).

use std::alloc::{GlobalAlloc, Layout, System};
use std::sync::atomic::{AtomicBool, AtomicI64, AtomicU64, Ordering::Relaxed};

pub struct Counting;

pub static LIVE_BYTES: AtomicI64 = AtomicI64::new(0);
pub static LIVE_BLOCKS: AtomicI64 = AtomicI64::new(0);
pub static TOTAL_ALLOCS: AtomicU64 = AtomicU64::new(0);
pub static ENABLED: AtomicBool = AtomicBool::new(false);

unsafe impl GlobalAlloc for Counting {
    unsafe fn alloc(&self, l: Layout) -> *mut u8 {
        let p = System.alloc(l);
        if !p.is_null() && ENABLED.load(Relaxed) {
            LIVE_BYTES.fetch_add(l.size() as i64, Relaxed);
            LIVE_BLOCKS.fetch_add(1, Relaxed);
            TOTAL_ALLOCS.fetch_add(1, Relaxed);
        }
        p
    }
    unsafe fn dealloc(&self, p: *mut u8, l: Layout) {
        if ENABLED.load(Relaxed) {
            LIVE_BYTES.fetch_sub(l.size() as i64, Relaxed);
            LIVE_BLOCKS.fetch_sub(1, Relaxed);
        }
        System.dealloc(p, l)
    }
    unsafe fn realloc(&self, p: *mut u8, l: Layout, new_size: usize) -> *mut u8 {
        let q = System.realloc(p, l, new_size);
        if !q.is_null() && ENABLED.load(Relaxed) {
            LIVE_BYTES.fetch_add(new_size as i64 - l.size() as i64, Relaxed);
        }
        q
    }
}

pub fn snapshot() -> (i64, i64) {
    (LIVE_BYTES.load(Relaxed), LIVE_BLOCKS.load(Relaxed))
}
