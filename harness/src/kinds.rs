//! Source kinds: constructors for every public way of obtaining a concurrent iterator.
//! (`ConcurrentIter` is not object safe, so every kind instantiates the generic driver.)

use crate::drive::{drive, ExecCfg, ExecOut};
use orx_concurrent_iter::ConcurrentIter as CI;
use crate::elem::*;
use crate::probe::*;
use crate::rules::Violation;
use orx_concurrent_iter::*;

pub const ALL_KINDS: [&str; 15] = [
    "slice",
    "vec_ref",
    "array_ref",
    "range",
    "vec",
    "array",
    "iter_owned",
    "iter_ref",
    "cloned_slice",
    "copied_slice",
    "cloned_iter",
    "copied_iter",
    "cloned_vec_ref",
    "stdvec_iter",
    "filter_iter",
];

pub const ARRAY_LENS: [usize; 8] = [0, 1, 2, 3, 5, 8, 16, 33];

pub fn is_wrapped(kind: &str) -> bool {
    matches!(kind, "iter_owned" | "iter_ref" | "cloned_iter" | "copied_iter" | "stdvec_iter" | "filter_iter")
}
pub fn is_consuming(kind: &str) -> bool {
    matches!(kind, "vec" | "array" | "iter_owned" | "stdvec_iter")
}
pub fn is_known_size(kind: &str) -> bool {
    !is_wrapped(kind)
}
pub fn has_probe(kind: &str) -> bool {
    matches!(kind, "iter_owned" | "iter_ref" | "cloned_iter" | "copied_iter" | "stdvec_iter" | "filter_iter")
}
pub fn is_adaptor(kind: &str) -> bool {
    kind.starts_with("cloned") || kind.starts_with("copied")
}

/// lengths usable for a kind (arrays only exist for a few sizes)
pub fn snap_len(kind: &str, len: usize) -> usize {
    if kind == "array" || kind == "array_ref" {
        *ARRAY_LENS.iter().min_by_key(|l| (**l as i64 - len as i64).abs()).unwrap()
    } else {
        len
    }
}

fn base_info(kind: &'static str, len: usize, salt: u64) -> SrcInfo {
    SrcInfo { kind, len, base_addr: 0, stride: 0, range_start: 0, salt, consuming: is_consuming(kind), adaptor: is_adaptor(kind), wrapped: is_wrapped(kind), exact_len: true, start_pos: 0, non_fused: false }
}

/// A computation that is generic over the concrete iterator type.
pub trait Visitor {
    type Out;
    fn visit<C: CI>(self, it: C, info: &SrcInfo) -> Self::Out
    where
        C::Item: Elem;
}

pub struct DriveVisitor<'a>(pub &'a ExecCfg);
impl<'a> Visitor for DriveVisitor<'a> {
    type Out = ExecOut;
    fn visit<C: CI>(self, it: C, info: &SrcInfo) -> ExecOut
    where
        C::Item: Elem,
    {
        drive(self.0, info, it)
    }
}

fn check_tk_source(out: &mut Vec<Violation>, src: &[Tk], info: &SrcInfo, ptr: usize, cap: Option<(usize, usize)>) {
    let mut bad = None;
    if src.len() != info.len || src.as_ptr() as usize != ptr {
        bad = Some(format!("collection changed: len {} (was {}), address {:#x} (was {:#x})", src.len(), info.len, src.as_ptr() as usize, ptr));
    }
    if let Some((c0, c1)) = cap {
        if c0 != c1 {
            bad = Some(format!("capacity changed from {} to {}", c0, c1));
        }
    }
    for (i, e) in src.iter().enumerate() {
        if e.id as usize != i || e.gen != 0 || e.pay != pay_of(i as u64, info.salt) {
            bad = Some(format!("element {} of the collection was modified (id {}, gen {})", i, e.id, e.gen));
            break;
        }
    }
    if let Some(b) = bad {
        out.push(Violation { rule: "SRC-MODIFIED", props: &["C19", "C13"], detail: b });
    }
}

fn check_u64_source(out: &mut Vec<Violation>, src: &[u64], info: &SrcInfo) {
    for (i, e) in src.iter().enumerate() {
        if *e != u64_value(i, info.salt) {
            out.push(Violation { rule: "SRC-MODIFIED", props: &["C19", "C13"], detail: format!("element {} of the collection was modified", i) });
            break;
        }
    }
}

macro_rules! array_arm {
    ($len:expr, $f:ident, $v:expr, $salt:expr, $($n:literal),*) => {
        match $len {
            $( $n => $f::<$n, _>($v, $salt), )*
            other => panic!("no array kind of length {other}"),
        }
    };
}

fn run_array<const N: usize, V: Visitor>(v: V, salt: u64) -> (V::Out, SrcInfo, Vec<Violation>) {
    let info = base_info("array", N, salt);
    let arr: [Tk; N] = std::array::from_fn(|i| Tk::new(i, salt));
    let it = arr.into_con_iter();
    (v.visit(it, &info), info, Vec::new())
}

fn run_array_ref<const N: usize, V: Visitor>(v: V, salt: u64) -> (V::Out, SrcInfo, Vec<Violation>) {
    let mut info = base_info("array_ref", N, salt);
    let arr: [Tk; N] = std::array::from_fn(|i| Tk::new(i, salt));
    info.base_addr = arr.as_ptr() as usize;
    info.stride = std::mem::size_of::<Tk>();
    let it = arr.con_iter();
    let out = v.visit(it, &info);
    let mut viol = Vec::new();
    check_tk_source(&mut viol, &arr, &info, info.base_addr, None);
    (out, info, viol)
}

pub fn static_kind(kind: &str) -> &'static str {
    ALL_KINDS.iter().find(|k| **k == kind).copied().unwrap_or_else(|| panic!("unknown kind {kind}"))
}

/// Builds the source and the iterator of `kind`, hands it to the visitor, checks the source afterwards.
/// `range`: explicit bounds for the range kind (boundary grid).
pub fn with_kind<V: Visitor>(kind: &str, len: usize, salt: u64, hint: Hint, range: Option<(usize, usize)>, v: V) -> (V::Out, SrcInfo, Vec<Violation>) {
    let tmk = std::time::Instant::now();
    let kind = static_kind(kind);
    let len = snap_len(kind, len);
    ledger_reset(len.saturating_add(8), salt);
    probe_reset();
    if std::env::var("OCV_TIMING").is_ok() { eprintln!(" reset done {:?}", tmk.elapsed()); }
    let mut viol = Vec::new();
    match kind {
        "slice" | "vec_ref" => {
            let mut info = base_info(kind, len, salt);
            let src = mk_tk_vec(len, salt);
            info.base_addr = src.as_ptr() as usize;
            info.stride = std::mem::size_of::<Tk>();
            let cap = src.capacity();
            let out = if kind == "slice" { v.visit(src.as_slice().into_con_iter(), &info) } else { v.visit(src.con_iter(), &info) };
            check_tk_source(&mut viol, &src, &info, info.base_addr, Some((cap, src.capacity())));
            (out, info, viol)
        }
        "array_ref" => array_arm!(len, run_array_ref, v, salt, 0, 1, 2, 3, 5, 8, 16, 33),
        "array" => array_arm!(len, run_array, v, salt, 0, 1, 2, 3, 5, 8, 16, 33),
        "range" => {
            let mut info = base_info(kind, len, salt);
            let r = match range {
                Some((a, b)) => {
                    info.range_start = a;
                    info.len = b.saturating_sub(a);
                    a..b
                }
                None => {
                    info.range_start = match salt % 4 {
                        0 => 0,
                        1 => 7,
                        2 => 1000,
                        _ => (salt >> 8) as usize % 100_000,
                    };
                    info.range_start..info.range_start + len
                }
            };
            let out = if salt & 16 == 0 { v.visit(r.con_iter(), &info) } else { v.visit(IntoConcurrentIter::into_con_iter(r), &info) };
            (out, info, viol)
        }
        "vec" => {
            let info = base_info(kind, len, salt);
            let src = mk_tk_vec(len, salt);
            (v.visit(src.into_con_iter(), &info), info, viol)
        }
        "stdvec_iter" => {
            let info = base_info(kind, len, salt);
            let src = mk_tk_vec(len, salt);
            (v.visit(Traced { inner: src.into_iter(), calls: 0 }.into_con_iter(), &info), info, viol)
        }
        "iter_owned" => {
            let mut info = base_info(kind, len, salt);
            info.exact_len = hint.is_exact();
            info.non_fused = hint.non_fused() && kind == "iter_owned";
            let p = ProbeOwned { pos: 0, len, salt, hint };
            (v.visit(p.into_con_iter(), &info), info, viol)
        }
        "iter_ref" | "cloned_iter" | "filter_iter" => {
            let mut info = base_info(kind, len, salt);
            info.exact_len = hint.is_exact() && kind != "filter_iter";
            let src = mk_tk_vec(len, salt);
            info.base_addr = src.as_ptr() as usize;
            info.stride = std::mem::size_of::<Tk>();
            let out = match kind {
                "iter_ref" => v.visit(ProbeRef { src: &src, pos: 0, hint }.into_con_iter(), &info),
                "cloned_iter" => v.visit(ProbeRef { src: &src, pos: 0, hint }.into_con_iter().cloned(), &info),
                _ => v.visit(Traced { inner: src.iter().filter(|x| x.gen == 0), calls: 0 }.into_con_iter(), &info),
            };
            check_tk_source(&mut viol, &src, &info, info.base_addr, None);
            (out, info, viol)
        }
        "cloned_slice" | "cloned_vec_ref" => {
            let mut info = base_info(kind, len, salt);
            let src = mk_tk_vec(len, salt);
            info.base_addr = src.as_ptr() as usize;
            info.stride = std::mem::size_of::<Tk>();
            let out = if kind == "cloned_slice" { v.visit(src.as_slice().into_con_iter().cloned(), &info) } else { v.visit(src.con_iter().cloned(), &info) };
            check_tk_source(&mut viol, &src, &info, info.base_addr, None);
            (out, info, viol)
        }
        "copied_slice" => {
            let info = base_info(kind, len, salt);
            let src = mk_u64_vec(len, salt);
            let out = v.visit(src.as_slice().into_con_iter().copied(), &info);
            check_u64_source(&mut viol, &src, &info);
            (out, info, viol)
        }
        "copied_iter" => {
            let mut info = base_info(kind, len, salt);
            info.exact_len = hint.is_exact();
            info.non_fused = hint.non_fused() && kind == "iter_owned";
            let src = mk_u64_vec(len, salt);
            let out = v.visit(ProbeRefU64 { src: &src, pos: 0, hint }.into_con_iter().copied(), &info);
            check_u64_source(&mut viol, &src, &info);
            (out, info, viol)
        }
        _ => unreachable!(),
    }
}

pub fn run_kind(kind: &str, len: usize, salt: u64, hint: Hint, cfg: &ExecCfg) -> (ExecOut, SrcInfo) {
    let (mut out, info, viol) = with_kind(kind, len, salt, hint, None, DriveVisitor(cfg));
    out.violations.extend(viol);
    (out, info)
}
