//! Offline checker over one recorded history. Values are unique (id == source position), so the
//! linearisation is forced and every rule is a set / sort operation, never a search.

use crate::elem::*;
use crate::ops::*;
use crate::probe::PROBE;
use crate::sched::SchedReport;
use std::sync::atomic::Ordering::Relaxed;

#[derive(Clone, Debug)]
pub struct Violation {
    pub rule: &'static str,
    pub props: &'static [&'static str],
    pub detail: String,
}

pub struct Hist<'a> {
    pub info: &'a SrcInfo,
    pub recs: &'a [Rec],
    pub nthreads: usize,
    /// stamps of different threads are comparable
    pub realtime: bool,
    pub remainder: Option<&'a [Ident]>,
    pub remainder_complete: bool,
    pub torn: bool,
    pub injected: bool,
    pub drain_overrun: bool,
    pub finish_panic: Option<String>,
    pub sched: Option<&'a SchedReport>,
    pub frozen: bool,
    /// sequential mode: the only thread spun on loads forever
    pub seq_stuck: bool,
}

#[derive(Default)]
pub struct Stats {
    pub overlapping_calls: u64,
    pub delivered: usize,
}

// rule -> properties
const P_DUP: &[&str] = &["C01", "C12", "C06", "C18", "C08", "C10"];
const P_LOSS: &[&str] = &["C01", "C12", "C11"];
const P_IDX: &[&str] = &["C02", "C12", "C06"];
const P_VALUE: &[&str] = &["C02", "C01", "C16", "C10", "C19", "C04"];
const P_BEYOND: &[&str] = &["C01", "C05", "C02", "C03"];
const P_ADDR: &[&str] = &["C19", "C02"];
const P_CHUNK: &[&str] = &["C03"];
const P_MONO: &[&str] = &["C04", "C06"];
const P_RT: &[&str] = &["C04", "C06"];
const P_PREFIX: &[&str] = &["C04", "C01"];
const P_END: &[&str] = &["C05"];
const P_SKIP: &[&str] = &["C06"];
const P_LEN: &[&str] = &["C11"];
const P_LEN_END: &[&str] = &["C11", "C05"];
const P_LEN_SKIP: &[&str] = &["C11", "C06"];
const P_FOREACH: &[&str] = &["C12"];
const P_OVERLAP: &[&str] = &["C07"];
const P_HB: &[&str] = &["C07"];
const P_DROP: &[&str] = &["C08"];
const P_DROP_PANIC: &[&str] = &["C18", "C08"];
const P_SRC: &[&str] = &["C19", "C13"];
const P_CLONE: &[&str] = &["C13"];
const P_SEQREM: &[&str] = &["C10"];
const P_STUCK: &[&str] = &["C09", "C18"];
const P_WAITFREE: &[&str] = &["C09"];
const P_PANIC: &[&str] = &["C01", "C02", "C03", "C04", "C05", "C06", "C07", "C08", "C09", "C10", "C11", "C12", "C13", "C16", "C17", "C18", "C19"];
const P_DRAIN: &[&str] = &["C05", "C01", "C09"];

struct Pull<'a> {
    thread: u8,
    t0: u64,
    /// stamp at which the positions were certainly handed over
    t1: u64,
    /// [start, start+len) positions owned by the caller through this pull
    start: u64,
    len: u64,
    rec: &'a Rec,
}

fn v(out: &mut Vec<Violation>, rule: &'static str, props: &'static [&'static str], detail: String) {
    // one violation per rule and history is enough
    if !out.iter().any(|x| x.rule == rule) {
        out.push(Violation { rule, props, detail });
    }
}

pub fn check(h: &Hist) -> (Vec<Violation>, Stats) {
    let mut out = Vec::new();
    let mut stats = Stats::default();
    let info = h.info;
    let len = info.len as u64;

    // ---------------------------------------------------------------- per record: item-level rules
    let mut pulls: Vec<Pull> = Vec::new();
    let mut any_skip = false;
    let mut any_end = false;
    let mut any_panic = false;
    for r in h.recs {
        match &r.res {
            Res::Items { begin, announced, requested, items, len_trace_ok, extra_after_end } => {
                let chunk = *announced != usize::MAX;
                for (k, it) in items.iter().enumerate() {
                    check_item(&mut out, info, r, it);
                    if it.idx != usize::MAX && it.idx as u64 != it.id {
                        v(&mut out, "IDX", P_IDX, format!("thread {} {}: reported index {} but the element is source position {}", r.thread, OP_NAMES[r.op as usize], it.idx, it.id));
                    }
                    if chunk && k > 0 && it.id.wrapping_sub(items[0].id) != it.idx.wrapping_sub(items[0].idx) as u64 {
                        v(&mut out, "CHUNK-CONSEC", P_CHUNK, format!("thread {} chunk at begin {}: item #{} is position {} (first item is {})", r.thread, begin, k, it.id, items[0].id));
                    }
                }
                if chunk {
                    if *announced == 0 {
                        v(&mut out, "CHUNK-EMPTY", P_CHUNK, format!("thread {} {}({}) returned Some with an empty chunk at begin {}", r.thread, OP_NAMES[r.op as usize], requested, begin));
                    }
                    if *announced > *requested {
                        v(&mut out, "CHUNK-TOO-LONG", P_CHUNK, format!("thread {} chunk of {} items for a request of {}", r.thread, announced, requested));
                    }
                    if !*len_trace_ok || *extra_after_end || items.len() > *announced || items.iter().any(|i| i.idx.wrapping_sub(*begin) >= *announced) {
                        v(&mut out, "CHUNK-LEN", P_CHUNK, format!("thread {} chunk at begin {}: announced len {} but len()/items disagree during consumption (yielded {}, extra_after_end {})", r.thread, begin, announced, items.len(), extra_after_end));
                    }
                    // position of the chunk's first element, from the first item that was seen and its offset
                    let start = if let Some(f) = items.first() { f.id.wrapping_sub(f.idx.wrapping_sub(*begin) as u64) } else { *begin as u64 };
                    if *announced < *requested && *announced > 0 && start + (*announced as u64) != len && !h.injected && !any_skip_before(h, r) {
                        v(&mut out, "CHUNK-SHORT", P_CHUNK, format!("thread {} chunk [{}..{}) is shorter than the requested {} but does not end at the last position {}", r.thread, start, start + *announced as u64, requested, len));
                    }
                    if *announced > 0 {
                        pulls.push(Pull { thread: r.thread, t0: r.t0, t1: r.t1, start, len: *announced as u64, rec: r });
                    }
                    // items that a chunk yielded outside the run it announced are deliveries of their own
                    for it in items.iter() {
                        if it.id < start || it.id >= start + *announced as u64 {
                            pulls.push(Pull { thread: r.thread, t0: r.t0, t1: it.t, start: it.id, len: 1, rec: r });
                        }
                    }
                } else if let Some(it) = items.first() {
                    pulls.push(Pull { thread: r.thread, t0: r.t0, t1: r.t1, start: it.id, len: 1, rec: r });
                }
            }
            Res::Opaque { items, fold_ok } => {
                any_end = true;
                for it in items {
                    check_item(&mut out, info, r, it);
                    if it.idx != usize::MAX && it.idx as u64 != it.id {
                        v(&mut out, "IDX", P_IDX, format!("thread {} {}: closure got index {} with the element of source position {}", r.thread, OP_NAMES[r.op as usize], it.idx, it.id));
                    }
                    pulls.push(Pull { thread: r.thread, t0: r.t0, t1: it.t, start: it.id, len: 1, rec: r });
                }
                if !*fold_ok {
                    v(&mut out, "FOLD-RESULT", P_FOREACH, format!("thread {} fold returned a value that is not the fold of the items its closure received", r.thread));
                }
            }
            Res::Panic { class, items } => {
                any_panic = true;
                for it in items {
                    check_item(&mut out, info, r, it);
                    pulls.push(Pull { thread: r.thread, t0: r.t0, t1: it.t, start: it.id, len: 1, rec: r });
                }
                if !class.starts_with("injected:") {
                    v(&mut out, "PANIC", P_PANIC, format!("thread {} {} panicked: {}", r.thread, OP_NAMES[r.op as usize], class));
                }
            }
            Res::End => any_end = true,
            Res::Skip => any_skip = true,
            _ => {}
        }
    }
    if let Some(p) = h.finish_panic.as_ref().filter(|p| !p.starts_with("injected:")) {
        v(&mut out, "PANIC", P_PANIC, format!("into_seq_iter / drop panicked: {}", p));
    }
    if h.drain_overrun {
        v(&mut out, "DRAIN-OVERRUN", P_DRAIN, format!("a thread pulled more than len+32 = {} times without observing the end", info.len + 32));
    }

    // ---------------------------------------------------------------- exactly-once
    let mut count = vec![0u32; info.len + 1];
    for p in &pulls {
        for pos in p.start..p.start.saturating_add(p.len) {
            if pos < len {
                count[pos as usize] += 1;
                if count[pos as usize] == 2 {
                    v(&mut out, "DUP", P_DUP, format!("source position {} was delivered twice (second time to thread {} via {})", pos, p.thread, OP_NAMES[p.rec.op as usize]));
                }
            } else {
                v(&mut out, "RANGE", P_VALUE, format!("thread {} received position {} which is outside the source of length {}", p.thread, pos, len));
                break;
            }
        }
    }
    stats.delivered = count.iter().filter(|c| **c > 0).count();
    let covered_all = (info.start_pos.min(info.len)..info.len).all(|i| count[i] > 0);
    let clean = !h.torn && !h.injected && !any_panic;
    if clean && any_end && !any_skip && !covered_all {
        let missing: Vec<usize> = (info.start_pos.min(info.len)..info.len).filter(|i| count[*i] == 0).take(8).collect();
        v(&mut out, "LOSS", P_LOSS, format!("the end was reported and all calls returned, but positions {:?} were delivered to nobody", missing));
    }

    // ---------------------------------------------------------------- temporal rules
    if h.realtime {
        temporal(h, &pulls, h.recs, &mut out, true, &mut stats);
    } else {
        for t in 0..h.nthreads as u8 {
            let sub: Vec<Rec> = h.recs.iter().filter(|r| r.thread == t).cloned().collect();
            let subp: Vec<Pull> = pulls.iter().filter(|p| p.thread == t).map(|p| Pull { thread: p.thread, t0: p.t0, t1: p.t1, start: p.start, len: p.len, rec: p.rec }).collect();
            temporal(h, &subp, &sub, &mut out, false, &mut stats);
        }
    }

    // ---------------------------------------------------------------- final state (everything joined)
    let total: u64 = pulls.iter().map(|p| p.len).sum();
    let max_end: u64 = pulls.iter().map(|p| p.start + p.len).max().unwrap_or(0);
    if clean && total != max_end.saturating_sub(info.start_pos as u64) && !out.iter().any(|x| x.rule == "DUP") {
        v(&mut out, "PREFIX", P_PREFIX, format!("after all calls returned the delivered positions are not a gap-free prefix: {} positions delivered, largest position {}", total, max_end.saturating_sub(1)));
    }
    if let Some(rem) = h.remainder {
        if !h.torn {
            seq_remainder(h, rem, &count, max_end, any_skip, clean, &mut out);
        }
    }

    // ---------------------------------------------------------------- probes / monitors
    if info.wrapped {
        let ov = PROBE.overlaps.load(Relaxed);
        if ov > 0 {
            v(&mut out, "OVERLAP", P_OVERLAP, format!("the wrapped iterator's next() was entered {} time(s) while another thread was inside it", ov));
        }
    }
    if h.seq_stuck {
        v(&mut out, "STUCK", P_STUCK, format!("a call on the only running thread never returns: more than {} consecutive loads with nobody else to change what they read", crate::sched::SEQ_STUCK_LOADS));
    }
    if let Some(s) = h.sched {
        if s.hb.unordered > 0 {
            v(&mut out, "HB", P_HB, format!("{} of {} cross-thread hand-offs of the wrapped iterator are not ordered by happens-before: {}", s.hb.unordered, s.hb.handoffs, s.hb.first_unordered));
        }
        if s.stuck {
            v(&mut out, "STUCK", P_STUCK, format!("no thread can make progress: {}", s.stuck_detail));
        }
        if s.waited_for_frozen && !info.wrapped {
            v(&mut out, "WAITFREE", P_WAITFREE, format!("known-size source: the other threads could not finish while thread {:?} was suspended", s.frozen_at));
        }
    }

    // ---------------------------------------------------------------- ledger
    if !h.torn {
        ledger(h, &count, &mut out);
    }
    (out, stats)
}

fn any_skip_before(h: &Hist, r: &Rec) -> bool {
    // a skip that started before the pull returned may legitimately cut a chunk short
    h.recs.iter().any(|s| matches!(s.res, Res::Skip) && (s.t0 < r.t1 || !h.realtime))
}

fn check_item(out: &mut Vec<Violation>, info: &SrcInfo, r: &Rec, it: &Item) {
    if info.non_fused && it.sane && it.id >= info.len as u64 && it.id < info.len as u64 + 4 {
        v(out, "BEYOND-END", P_BEYOND, format!("thread {} {} delivered an element from behind the end of the source sequence: the wrapped iterator (not fused) was polled again after it had returned None", r.thread, OP_NAMES[r.op as usize]));
        return;
    }
    if !it.sane || it.id >= info.len as u64 {
        v(out, "VALUE", P_VALUE, format!("thread {} {} delivered a value that is not an element of the source (decoded position {}, source length {})", r.thread, OP_NAMES[r.op as usize], it.id, info.len));
        return;
    }
    if info.base_addr != 0 && !info.adaptor {
        let expect = info.base_addr + it.id as usize * info.stride;
        if it.addr != expect {
            v(out, "ADDR", P_ADDR, format!("thread {} received a reference to {:#x} for position {}, but that element of the collection lives at {:#x}", r.thread, it.addr, it.id, expect));
        }
    }
    if info.adaptor && info.base_addr != 0 && it.addr != 0 {
        let lo = info.base_addr;
        let hi = info.base_addr + info.len * info.stride;
        if it.addr >= lo && it.addr < hi {
            v(out, "CLONE-ALIAS", P_CLONE, format!("adaptor delivered the source object itself (address {:#x}) instead of a clone", it.addr));
        }
    }
    if info.adaptor && !it.is_clone {
        v(out, "CLONE-ORIGINAL", P_CLONE, format!("adaptor delivered an original element (position {}) instead of a clone", it.id));
    }
}

fn qval(r: &Rec) -> Option<Option<u64>> {
    match &r.res {
        Res::Len(x) => Some(x.map(|x| x as u64)),
        Res::More(0, _) => Some(Some(0)),
        Res::More(1, _) => Some(None),
        Res::More(_, n) => Some(Some(*n as u64)),
        _ => None,
    }
}

fn temporal(h: &Hist, pulls: &[Pull], recs: &[Rec], out: &mut Vec<Violation>, global: bool, stats: &mut Stats) {
    let info = h.info;
    let len = info.len as u64;

    // MONO: per thread strictly increasing positions (pulls are in t0 order per thread)
    {
        let mut last: Vec<Option<u64>> = vec![None; 256];
        let mut ps: Vec<&Pull> = pulls.iter().collect();
        ps.sort_by_key(|p| (p.t0, p.t1));
        for p in ps {
            let t = p.thread as usize;
            if let Some(l) = last[t] {
                if p.start <= l {
                    v(out, "MONO", P_MONO, format!("thread {} received position {} after it had already received position {}", t, p.start, l));
                }
            }
            let e = p.start + p.len - 1;
            last[t] = Some(last[t].map(|l| l.max(e)).unwrap_or(e));
        }
    }

    // RT: o1 returned before o2 was called => positions(o1) < positions(o2)
    {
        let mut by_t1: Vec<(u64, u64)> = pulls.iter().map(|p| (p.t1, p.start + p.len - 1)).collect();
        by_t1.sort();
        let mut pm = Vec::with_capacity(by_t1.len());
        let mut m = 0u64;
        for (i, (_, e)) in by_t1.iter().enumerate() {
            m = if i == 0 { *e } else { m.max(*e) };
            pm.push(m);
        }
        for p in pulls {
            let k = by_t1.partition_point(|(t1, _)| *t1 < p.t0);
            if k > 0 && pm[k - 1] >= p.start {
                // find the witness (skip self: a pull never returns before it is called)
                v(out, "RT", P_RT, format!("thread {} was handed position {} by a call that started (t={}) after another call had already returned a position >= it ({})", p.thread, p.start, p.t0, pm[k - 1]));
            }
        }
    }

    // overlap statistics + PREFIX at quiescent instants
    if global {
        // kinds at one stamp: 0 = positions handed over, 1 = call returns, 2 = call starts
        let mut evs: Vec<(u64, u8, u64, u64)> = Vec::new();
        for r in recs {
            if OP_IS_PULL[r.op as usize] {
                evs.push((r.t0, 2, 0, 0));
                evs.push((r.t1, 1, 0, 0));
            }
        }
        for p in pulls {
            evs.push((p.t1, 0, p.len, p.start + p.len));
        }
        evs.sort();
        let mut open = 0i32;
        let mut total = 0u64;
        let mut max_end = 0u64;
        let clean = !h.torn && !h.injected && !recs.iter().any(|r| matches!(r.res, Res::Panic { .. }));
        for (_, d, l, e) in evs {
            if d == 2 {
                if open > 0 {
                    stats.overlapping_calls += 1;
                }
                open += 1;
            } else if d == 1 {
                open -= 1;
                if open == 0 && clean && total != max_end.saturating_sub(info.start_pos as u64) && !out.iter().any(|x| x.rule == "DUP") {
                    v(out, "PREFIX", P_PREFIX, format!("no pull in flight, yet the delivered positions are not a gap-free prefix: {} positions delivered, largest position {}", total, max_end.saturating_sub(1)));
                }
            } else {
                total += l;
                max_end = max_end.max(e);
            }
        }
    }

    // END / SKIP / LEN: things that must hold for every call that starts after some earlier return
    let mut first_end: Option<u64> = None; // earliest t1 of an End report (any pull method, incl. for_each return)
    let mut first_end_single: Option<u64> = None; // ... by a single or one-shot chunk pull
    let mut first_skip: Option<u64> = None;
    let mut first_zero: Option<u64> = None;
    for r in recs {
        match &r.res {
            Res::End => {
                first_end = Some(first_end.map(|x: u64| x.min(r.t1)).unwrap_or(r.t1));
                if r.op <= 2 || r.op == 4 || r.op == 5 {
                    first_end_single = Some(first_end_single.map(|x: u64| x.min(r.t1)).unwrap_or(r.t1));
                }
            }
            Res::Opaque { .. } => first_end = Some(first_end.map(|x: u64| x.min(r.t1)).unwrap_or(r.t1)),
            Res::Skip => first_skip = Some(first_skip.map(|x: u64| x.min(r.t1)).unwrap_or(r.t1)),
            _ => {
                if let Some(Some(0)) = qval(r) {
                    first_zero = Some(first_zero.map(|x: u64| x.min(r.t1)).unwrap_or(r.t1));
                }
            }
        }
    }
    for p in pulls {
        if let Some(te) = first_end {
            if p.t0 > te {
                v(out, "END", P_END, format!("thread {} was handed position {} by a call that started (t={}) after the end had been reported (t={})", p.thread, p.start, p.t0, te));
            }
        }
        if let Some(ts) = first_skip {
            if p.t0 > ts {
                v(out, "SKIP", P_SKIP, format!("thread {} was handed position {} by a call that started (t={}) after skip_to_end had returned (t={})", p.thread, p.start, p.t0, ts));
            }
        }
        if let Some(tz) = first_zero {
            if p.t0 > tz {
                v(out, "LEN-ZERO", P_LEN, format!("thread {} was handed position {} by a call that started (t={}) after try_get_len/has_more had answered 0/No (t={})", p.thread, p.start, p.t0, tz));
            }
        }
    }

    // queries
    let qs: Vec<(&Rec, Option<u64>)> = recs.iter().filter_map(|r| qval(r).map(|q| (r, q))).collect();
    for (r, q) in &qs {
        if let Res::More(2, 0) = r.res {
            v(out, "LEN-KIND", P_LEN, "has_more answered Yes(0)".to_string());
        }
        if info.exact_len && q.is_none() {
            v(out, "LEN-KIND", P_LEN, format!("{} of a source of known size answered None/Maybe", OP_NAMES[r.op as usize]));
        }
        if !info.exact_len {
            if let Some(x) = q {
                if *x > 0 {
                    v(out, "LEN-KIND", P_LEN, format!("{} of a source of unknown size answered {}", OP_NAMES[r.op as usize], x));
                }
            }
        }
        if let Some(te) = first_end {
            if r.t0 > te && q.map(|x| x > 0).unwrap_or(false) {
                v(out, "LEN-AFTER-END", P_LEN_END, format!("{} answered {:?} remaining after the end had been reported", OP_NAMES[r.op as usize], q));
            }
        }
        if let Some(te) = first_end_single {
            if r.t0 > te && *q != Some(0) {
                v(out, "LEN-AFTER-END", P_LEN_END, format!("{} answered {:?} after a single / one-shot chunk pull had reported the end; must be 0 / No", OP_NAMES[r.op as usize], q));
            }
        }
        if let Some(ts) = first_skip {
            if r.t0 > ts && *q != Some(0) {
                v(out, "LEN-AFTER-SKIP", P_LEN_SKIP, format!("{} answered {:?} after skip_to_end had returned; must be 0 / No", OP_NAMES[r.op as usize], q));
            }
        }
    }
    // LEN-MONO: a later query never reports more than an earlier one
    {
        let mut by_t1: Vec<(u64, u64)> = qs.iter().map(|(r, q)| (r.t1, q.unwrap_or(u64::MAX))).collect();
        by_t1.sort();
        let mut pmin = Vec::with_capacity(by_t1.len());
        let mut m = u64::MAX;
        for (_, x) in &by_t1 {
            m = m.min(*x);
            pmin.push(m);
        }
        for (r, q) in &qs {
            let k = by_t1.partition_point(|(t1, _)| *t1 < r.t0);
            if k > 0 && q.unwrap_or(u64::MAX) > pmin[k - 1] {
                v(out, "LEN-MONO", P_LEN, format!("{} answered {:?} although an earlier query had already answered {}", OP_NAMES[r.op as usize], q, pmin[k - 1]));
            }
        }
    }
    // LEN-BOUNDS (exact sizes, global clock only)
    if global && info.exact_len && !h.torn {
        for (r, q) in &qs {
            let x = match q {
                Some(x) => *x,
                None => continue,
            };
            // upper: positions certainly handed over before the query was called
            let mut taken_before: u64 = 0;
            let mut upper_zero = false;
            let mut requested_before: u64 = 0;
            let mut lower_zero = false;
            for p in pulls {
                if p.t1 < r.t0 {
                    taken_before += p.len;
                }
            }
            for o in recs {
                match &o.res {
                    Res::End | Res::Skip if o.t1 < r.t0 => upper_zero = true,
                    Res::Opaque { .. } if o.t1 < r.t0 => upper_zero = true,
                    _ => {}
                }
                if o.t0 < r.t1 {
                    match &o.res {
                        Res::Skip | Res::Opaque { .. } | Res::Panic { .. } => lower_zero = true,
                        Res::End => requested_before = requested_before.saturating_add(req_of(h, o)),
                        Res::Items { requested, .. } => requested_before = requested_before.saturating_add(*requested as u64),
                        _ => {}
                    }
                }
            }
            // calls still running when the history ends (none: everything joined)
            let upper = if upper_zero { 0 } else { len.saturating_sub(info.start_pos as u64).saturating_sub(taken_before) };
            let lower = if lower_zero || h.injected { 0 } else { len.saturating_sub(info.start_pos as u64).saturating_sub(requested_before) };
            if x > upper {
                v(out, "LEN-BOUNDS", P_LEN, format!("{} answered {} but at most {} elements could still be delivered (len {}, {} positions handed over by calls that had returned before)", OP_NAMES[r.op as usize], x, upper, len, taken_before));
            }
            if x < lower {
                v(out, "LEN-BOUNDS", P_LEN, format!("{} answered {} but at least {} elements were still undelivered (len {}, {} requested by all calls started before it returned)", OP_NAMES[r.op as usize], x, lower, len, requested_before));
            }
        }
    }
}

/// requested amount of a pull that reported the end
fn req_of(_h: &Hist, _r: &Rec) -> u64 {
    // a pull that reports the end advanced the cursor by at least one; any positive request of a
    // pull that found nothing means nothing was left, so the lower bound drops to zero
    u64::MAX
}

const OP_IS_PULL: [bool; 13] = [true, true, true, true, true, true, true, true, true, false, false, false, true];

fn seq_remainder(h: &Hist, rem: &[Ident], count: &[u32], max_end: u64, any_skip: bool, clean: bool, out: &mut Vec<Violation>) {
    let info = h.info;
    for (k, r) in rem.iter().enumerate() {
        if !r.sane || r.id >= info.len as u64 {
            v(out, "SEQREM", P_SEQREM, format!("into_seq_iter yielded a value that is not an element of the source (item #{}, decoded position {})", k, r.id));
            return;
        }
        if k > 0 && r.id != rem[k - 1].id + 1 {
            v(out, "SEQREM", P_SEQREM, format!("into_seq_iter is not in source order / not consecutive: position {} follows {}", r.id, rem[k - 1].id));
            return;
        }
        if count[r.id as usize] > 0 {
            v(out, "SEQREM", P_SEQREM, format!("into_seq_iter yielded position {} which had already been delivered", r.id));
            return;
        }
        if info.base_addr != 0 && !info.adaptor && r.addr != info.base_addr + r.id as usize * info.stride {
            v(out, "ADDR", P_ADDR, format!("into_seq_iter yielded a reference to {:#x} for position {}", r.addr, r.id));
        }
    }
    if !clean {
        return;
    }
    let undelivered_from = max_end.max(info.start_pos as u64).min(info.len as u64);
    if !any_skip {
        // exactly the undelivered suffix
        if let Some(f) = rem.first() {
            if f.id != undelivered_from {
                v(out, "SEQREM", P_SEQREM, format!("into_seq_iter starts at position {} but the first undelivered position is {}", f.id, undelivered_from));
            }
        }
        if h.remainder_complete && rem.len() as u64 != info.len as u64 - undelivered_from {
            v(out, "SEQREM", P_SEQREM, format!("into_seq_iter yielded {} elements but {} were undelivered (positions {}..{})", rem.len(), info.len as u64 - undelivered_from, undelivered_from, info.len));
        }
    } else if h.remainder_complete {
        // a suffix of the undelivered elements: must end at the last position if non-empty
        if let Some(l) = rem.last() {
            if l.id + 1 != info.len as u64 {
                v(out, "SEQREM", P_SEQREM, format!("after skip_to_end the remainder ends at position {} which is not the last position {}", l.id, info.len - 1));
            }
        }
    }
}

fn ledger(h: &Hist, count: &[u32], out: &mut Vec<Violation>) {
    let info = h.info;
    let props = if h.injected { P_DROP_PANIC } else { P_DROP };
    let g = GARBAGE_DROPS.load(Relaxed);
    if g > 0 {
        v(out, "DROP-GARBAGE", props, format!("{} destructor run(s) on memory that is not a live element (corrupt id / payload)", g));
    }
    if info.consuming {
        for id in 0..info.len.min(MAX_IDS) {
            let d = DROPPED[id].load(Relaxed);
            // every element that exists (lazily created by an owning probe iterator) is destroyed exactly once
            let expect = CREATED[id].load(Relaxed);
            if d != expect {
                let what = if d > expect { "DROP-TWICE" } else { "DROP-NEVER" };
                let deliv = if count[id] > 0 { "delivered to a caller" } else { "not delivered" };
                v(out, what, props, format!("element {} ({}) had its destructor run {} time(s) after the iterator, all chunks and the remainder were dropped; expected {}", id, deliv, d, expect));
            }
        }
    } else if info.kind != "range" && !info.kind.starts_with("copied") {
        for id in 0..info.len.min(MAX_IDS) {
            let d = DROPPED[id].load(Relaxed);
            if d != 0 {
                v(out, "SRC-DROPPED", P_SRC, format!("element {} of the borrowed collection had its destructor run {} time(s) during iteration", id, d));
            }
            let c = CLONED[id].load(Relaxed);
            let cd = CLONE_DROPPED[id].load(Relaxed);
            if c != cd {
                v(out, "CLONE-LEDGER", P_CLONE, format!("element {}: {} clone(s) made but {} clone destructor run(s)", id, c, cd));
            }
            if !info.adaptor && c != 0 {
                v(out, "CLONE-LEDGER", P_CLONE, format!("element {} was cloned {} time(s) by a reference-yielding iterator", id, c));
            }
        }
    }
}
