//! ocv — runtime-monitoring harness for orx-concurrent-iter. See /verif/DESIGN.md.

mod drive;
mod elem;
mod kinds;
mod ops;
mod probe;
mod rules;
mod sched;
mod util;
mod extra;
mod alloc;

use drive::*;
use ops::*;
use probe::Hint;
use sched::Policy;
use std::collections::{BTreeMap, HashSet};
use util::*;

#[global_allocator]
static GLOBAL: alloc::Counting = alloc::Counting;

fn main() {
    let args = Args::parse(std::env::args().skip(1));
    install_panic_hook();
    sched::install_hooks();
    let cmd = args.pos.first().map(|s| s.as_str()).unwrap_or("help");
    let code = match cmd {
        "run" => cmd_run(&args),
        "grid" => extra::cmd_grid(&args),
        "transcript" => extra::cmd_transcript(&args),
        "leak" => extra::cmd_leak(&args),
        "multi" => extra::cmd_multi(&args),
        "lockstep" => extra::cmd_lockstep(&args),
        "lowlevel" => extra::cmd_lowlevel(&args),
        "zst" => extra::cmd_zst(&args),
        "wrappers" => extra::cmd_wrappers(&args),
        "info" => {
            println!("{}", J::obj().set("hooks", J::B(sched::HOOKS_AVAILABLE)).set("debug_assertions", J::B(cfg!(debug_assertions))).render());
            0
        }
        _ => {
            eprintln!("usage: ocv run|grid|transcript|leak|multi|lockstep|lowlevel|info [--key value ...]");
            2
        }
    };
    std::process::exit(code);
}

pub struct Case {
    pub kind: String,
    pub len: usize,
    pub salt: u64,
    pub hint: Hint,
    pub cfg: ExecCfg,
    pub hash: u64,
}

pub struct RunArgs {
    pub mode: Mode,
    pub kinds: Vec<String>,
    pub profile: Profile,
    pub seed: u64,
    pub lens: Vec<usize>,
    pub tmin: usize,
    pub tmax: usize,
    pub hints: Vec<Hint>,
    pub race: bool,
    pub perturb: u32,
    pub finish: String,
}

fn parse_threads(s: &str) -> (usize, usize) {
    match s.split_once('-') {
        Some((a, b)) => (a.parse().unwrap(), b.parse().unwrap()),
        None => {
            let x = s.parse().unwrap();
            (x, x)
        }
    }
}

pub fn run_args(a: &Args) -> RunArgs {
    let mode = match a.str("mode", "seq").as_str() {
        "seq" => Mode::Seq,
        "sched" => Mode::Sched,
        "free" => Mode::Free,
        m => panic!("bad mode {m}"),
    };
    let kinds = {
        let k = a.list("kinds", "all");
        if k == ["all"] {
            kinds::ALL_KINDS.iter().map(|s| s.to_string()).collect()
        } else {
            k
        }
    };
    let (tmin, tmax) = parse_threads(&a.str("threads", if mode == Mode::Seq { "1-2" } else { "2-4" }));
    RunArgs {
        mode,
        kinds,
        profile: profile(&a.str("profile", "mixed")),
        seed: a.u64("seed", 1),
        lens: a.list("lens", "0,1,2,3,5,8,13,1,2,3,5,8,33,64").iter().map(|s| s.parse().unwrap()).collect(),
        tmin,
        tmax,
        hints: a.list("hints", "exact,exact,inexact,unbounded,exact_nf,unbounded_nf").iter().map(|s| Hint::parse(s)).collect(),
        race: a.flag("race"),
        perturb: a.u64("perturb", 0) as u32,
        finish: a.str("finish", "mix"),
    }
}

/// The (deterministic) base case number `e` of a run.
pub fn make_case(ra: &RunArgs, e: u64) -> Case {
    let mut rng = Rng::new(mix(ra.seed, e));
    let kind = ra.kinds[(e as usize) % ra.kinds.len()].clone();
    let len = kinds::snap_len(&kind, *rng.pick(&ra.lens));
    let salt = rng.next_u64();
    let hint = *rng.pick(&ra.hints);
    let nthreads = rng.range(ra.tmin, ra.tmax);
    let mut scripts = Vec::new();
    for _ in 0..nthreads {
        scripts.push(gen_script(&mut rng, &ra.profile, len, kinds::is_wrapped(&kind)));
    }
    // at least one thread does something
    if scripts.iter().all(|s| s.pre.is_empty() && s.drain.is_empty() && s.post.is_empty()) {
        scripts[0].drain.push(Op::Next);
    }
    let finish = match ra.finish.as_str() {
        "drop" => Finish::Drop,
        "seq" => Finish::IntoSeq { take: usize::MAX },
        _ => match rng.below(4) {
            0 | 1 => Finish::IntoSeq { take: usize::MAX },
            2 => Finish::IntoSeq { take: rng.below(len + 1) },
            _ => Finish::Drop,
        },
    };
    let policy = match rng.below(8) {
        0 => Policy::Walk { num: 0, den: 1 },
        1 => Policy::Walk { num: 1, den: 2 },
        2 => Policy::Walk { num: 3, den: 4 },
        3 => Policy::Walk { num: 15, den: 16 },
        4 | 5 => Policy::Pct { changes: rng.range(1, 3), horizon: (40 * nthreads) as u64 },
        6 => Policy::Starve { victim: rng.below(nthreads) },
        _ => Policy::Walk { num: 7, den: 8 },
    };
    let sched_seed = rng.next_u64();
    let mut h = Fnv::new();
    h.add_str(&kind);
    h.add(len as u64);
    for s in &scripts {
        s.hash_into(&mut h);
    }
    h.add(match finish {
        Finish::Drop => 1,
        Finish::IntoSeq { take } => (take as u64).wrapping_add(2),
    });
    let cfg = ExecCfg { mode: ra.mode, scripts, finish, policy, sched_seed, freeze: None, inject: Inject::None, perturb: ra.perturb, race: ra.race };
    Case { kind, len, salt, hint, cfg, hash: h.0 }
}

#[derive(Default)]
pub struct Agg {
    pub cases: u64,
    pub base_cases: u64,
    pub events: u64,
    pub hook_events: u64,
    pub switches: u64,
    pub preempt_in_op: u64,
    pub signatures: HashSet<u64>,
    pub nontrivial: HashSet<u64>,
    pub case_hashes: HashSet<u64>,
    pub per_kind: BTreeMap<String, u64>,
    pub per_op: BTreeMap<String, u64>,
    pub per_rule: BTreeMap<String, u64>,
    pub per_len: BTreeMap<String, u64>,
    pub handoffs: u64,
    pub hb_unordered: u64,
    pub hb_accesses: u64,
    pub stuck: u64,
    pub waited_for_frozen: u64,
    pub freeze_points: u64,
    pub inject_points: u64,
    pub injected_panics_seen: u64,
    pub spins_observed: u64,
    pub max_hook_in_op_known: u64,
    pub max_hook_in_op_wrapped: u64,
    pub delivered: u64,
    pub ends: u64,
    pub skips: u64,
    pub queries: u64,
    pub chunks: u64,
    pub short_chunks: u64,
    pub overlapping_calls: u64,
    pub execs_with_overlap: u64,
    pub probe_handoffs: u64,
    pub probe_calls: u64,
    pub remainders: u64,
    pub remainder_items: u64,
    pub violations: u64,
    pub other_props: u64,
    pub printed: u64,
    pub samples: Vec<J>,
}

fn policy_str(p: &Policy) -> String {
    format!("{:?}", p)
}

fn case_json(c: &Case, id: &str) -> J {
    J::obj()
        .set("case", J::s(id))
        .set("kind", J::s(&c.kind))
        .set("len", J::u(c.len))
        .set("hint", J::s(c.hint.name()))
        .set("threads", J::u(c.cfg.scripts.len()))
        .set("scripts", J::A(c.cfg.scripts.iter().map(|s| s.render()).collect()))
        .set("finish", J::S(format!("{:?}", c.cfg.finish)))
        .set("policy", J::S(policy_str(&c.cfg.policy)))
        .set("freeze", J::S(format!("{:?}", c.cfg.freeze)))
        .set("inject", J::S(format!("{:?}", c.cfg.inject)))
}

fn run_one(a: &Args, c: &Case, id: &str, agg: &mut Agg, max_print: u64) -> ExecOut {
    if let Ok(mut cc) = drive::CURRENT_CASE.lock() {
        *cc = case_json(c, id).render();
    }
    let tm0 = std::time::Instant::now();
    let (out, info) = kinds::run_kind(&c.kind, c.len, c.salt, c.hint, &c.cfg);
    if a.flag("timing") { eprintln!("run_kind {:?} recs={}", tm0.elapsed(), out.recs.len()); }
    agg.cases += 1;
    *agg.per_kind.entry(c.kind.clone()).or_default() += 1;
    *agg.per_len.entry(c.len.to_string()).or_default() += 1;
    for r in &out.recs {
        *agg.per_op.entry(OP_NAMES[r.op as usize].to_string()).or_default() += 1;
        match &r.res {
            Res::End => agg.ends += 1,
            Res::Skip => agg.skips += 1,
            Res::Len(_) | Res::More(..) => agg.queries += 1,
            Res::Items { announced, requested, .. } if *announced != usize::MAX => {
                agg.chunks += 1;
                if announced < requested {
                    agg.short_chunks += 1;
                }
            }
            Res::Panic { class, .. } if class.starts_with("injected") => agg.injected_panics_seen += 1,
            _ => {}
        }
    }
    agg.delivered += out.delivered as u64;
    agg.probe_handoffs += out.probe_handoffs;
    agg.probe_calls += out.probe_calls;
    agg.overlapping_calls += out.overlapping_calls;
    if out.overlapping_calls > 0 {
        agg.execs_with_overlap += 1;
    }
    if let Some(n) = out.remainder_len {
        agg.remainders += 1;
        agg.remainder_items += n as u64;
    }
    if let Some(s) = &out.sched {
        agg.events += s.events;
        agg.hook_events += s.hook_events;
        agg.switches += s.switches;
        agg.preempt_in_op += s.preempt_in_op;
        agg.signatures.insert(s.signature);
        if s.preempt_in_op >= 1 && out.overlapping_calls >= 1 {
            agg.nontrivial.insert(s.signature ^ c.hash);
        }
        agg.handoffs += s.hb.handoffs;
        agg.hb_unordered += s.hb.unordered;
        agg.hb_accesses += s.hb.accesses;
        agg.spins_observed += s.spins_observed;
        if s.stuck {
            agg.stuck += 1;
        }
        if s.waited_for_frozen {
            agg.waited_for_frozen += 1;
        }
        if info.wrapped {
            agg.max_hook_in_op_wrapped = agg.max_hook_in_op_wrapped.max(s.max_hook_events_in_one_op);
        } else {
            agg.max_hook_in_op_known = agg.max_hook_in_op_known.max(s.max_hook_events_in_one_op);
        }
    } else {
        let ops: usize = out.recs.len();
        if ops >= 3 {
            agg.nontrivial.insert(c.hash);
        }
        if c.cfg.mode == Mode::Free && out.overlapping_calls > 0 {
            agg.signatures.insert(c.hash ^ out.overlapping_calls);
        }
    }
    agg.case_hashes.insert(c.hash);
    let prop = a.get("prop");
    for v in &out.violations {
        agg.violations += 1;
        *agg.per_rule.entry(v.rule.to_string()).or_default() += 1;
        // only violations of the property under check are written out (the print budget is theirs)
        if prop.map(|p| !v.props.contains(&p)).unwrap_or(false) {
            agg.other_props += 1;
            continue;
        }
        if agg.printed < max_print {
            agg.printed += 1;
            let mut replay: Vec<String> = vec!["run".into()];
            for (k, val) in &a.kv {
                if k != "only" && k != "execs" && k != "shard" && k != "nshards" && k != "hash-out" {
                    replay.push(format!("--{}={}", k, val));
                }
            }
            replay.push(format!("--only={}", id));
            let hist: Vec<J> = out.recs.iter().take(120).map(|r| r.render()).collect();
            let j = J::obj()
                .set("t", J::s("violation"))
                .set("rule", J::s(v.rule))
                .set("props", J::A(v.props.iter().map(|p| J::s(p)).collect()))
                .set("detail", J::s(&v.detail))
                .set("kind", J::s(&c.kind))
                .set("len", J::u(c.len))
                .set("mode", J::S(format!("{:?}", c.cfg.mode)))
                .set("inject", J::S(format!("{:?}", c.cfg.inject)))
                .set("case", case_json(c, id))
                .set("replay_args", J::A(replay.iter().map(|s| J::s(s)).collect()))
                .set("history", J::A(hist));
            println!("{}", j.render());
        }
    }
    if agg.samples.len() < 3 && out.recs.len() >= 4 && out.violations.is_empty() && (agg.cases % 7 == 1 || agg.samples.is_empty()) {
        let hist: Vec<J> = out.recs.iter().take(40).map(|r| r.render()).collect();
        let mut j = case_json(c, id).set("history", J::A(hist));
        if let Some(s) = &out.sched {
            j.put("schedule_signature", J::S(format!("{:016x}", s.signature)));
            j.put("events", J::u64(s.events));
            j.put("switches", J::u64(s.switches));
        }
        agg.samples.push(j);
    }
    out
}

fn script_has_closure(c: &Case) -> bool {
    c.cfg.scripts.iter().any(|s| s.pre.iter().chain(s.drain.iter()).chain(s.post.iter()).any(|o| matches!(o, Op::ForEach { .. } | Op::EnumForEach { .. } | Op::Fold { .. })))
}

fn only_case(o: &(u64, u64)) -> u64 {
    o.0
}

fn cmd_run(a: &Args) -> i32 {
    let ra = run_args(a);
    if ra.mode == Mode::Sched && !sched::HOOKS_AVAILABLE {
        println!("{}", J::obj().set("t", J::s("error")).set("error", J::s("sched mode needs the hook build (--cfg orx_concurrent_iter_verif)")).render());
        return 3;
    }
    if a.flag("boxed") {
        elem::BOXED.store(true, std::sync::atomic::Ordering::Relaxed);
    }
    let execs = a.u64("execs", 100);
    let shard = a.u64("shard", 0);
    let nshards = a.u64("nshards", 1);
    let max_print = a.u64("max-print", 4);
    let freeze_enum = a.usize("freeze-enum", 0); // enumerate freeze points for every Nth base case
    let inject = a.str("inject", "none");
    let only = a.get("only").map(|s| {
        let (e, v) = s.split_once(':').unwrap_or((s, "0"));
        (e.parse::<u64>().unwrap(), v.parse::<u64>().unwrap())
    });
    let t0 = std::time::Instant::now();
    let mut agg = Agg::default();
    // a replayed case (--only) is executed whatever --execs / --shard say
    let (mut e, execs) = match only {
        Some(o) => (only_case(&o), only_case(&o) + 1),
        None => (shard, execs),
    };
    while e < execs {
        if let Some((oe, _)) = only {
            if e != oe {
                e += nshards;
                continue;
            }
        }
        let tm0 = std::time::Instant::now();
        let base = make_case(&ra, e);
        if a.flag("timing") { eprintln!("make_case {:?}", tm0.elapsed()); }
        let want = |v: u64| only.map(|(_, ov)| ov == v).unwrap_or(true);
        let mut points: Vec<u64> = Vec::new();
        if want(0) || only.map(|(_, ov)| (1000..2000).contains(&ov)).unwrap_or(false) {
            let out = run_one(a, &base, &format!("{}:0", e), &mut agg, if want(0) { max_print } else { 0 });
            agg.base_cases += 1;
            if let Some(s) = &out.sched {
                points = s.points_per_thread.clone();
            }
        }
        // freeze adversary: every scheduling point of one thread of this schedule
        if freeze_enum > 0 && ra.mode == Mode::Sched && (e / nshards) % freeze_enum as u64 == 0 && !points.is_empty() {
            let mut r = Rng::new(mix(ra.seed ^ 0xF2EE, e));
            let t = r.below(points.len());
            let kmax = points[t].min(a.u64("freeze-cap", 48));
            for k in 1..=kmax {
                if !want(1000 + k) {
                    continue;
                }
                let mut c = make_case(&ra, e);
                c.cfg.freeze = Some((t, k));
                agg.freeze_points += 1;
                run_one(a, &c, &format!("{}:{}", e, 1000 + k), &mut agg, max_print);
            }
        }
        // crash points: the k-th call of the wrapped next / clone / closure panics
        if inject != "none" {
            let kind = base.kind.as_str();
            let which = match inject.as_str() {
                "auto" => {
                    let mut c: Vec<&str> = Vec::new();
                    if kinds::has_probe(kind) {
                        c.push("next");
                    }
                    if kind.starts_with("cloned") {
                        c.push("clone");
                    }
                    if script_has_closure(&base) {
                        c.push("closure");
                    }
                    if kinds::is_consuming(kind) {
                        c.push("drop");
                    }
                    if c.is_empty() {
                        "skip"
                    } else {
                        c[((e / nshards) as usize) % c.len()]
                    }
                }
                "drop" if !kinds::is_consuming(kind) => "skip",
                "next" if !kinds::has_probe(kind) => "skip",
                "clone" if !kind.starts_with("cloned") => "skip",
                w => w,
            };
            if which != "skip" {
                let kmax = (base.len + 1).min(a.usize("inject-cap", 16)) as u64;
                for k in 0..=kmax {
                    if !want(2000 + k) {
                        continue;
                    }
                    let mut c = make_case(&ra, e);
                    c.cfg.inject = match which {
                        "next" => Inject::WrappedNext(k as i64),
                        "clone" => Inject::Clone(k as i64),
                        "drop" => Inject::Drop(k as i64),
                        _ => Inject::Closure(k as i64),
                    };
                    agg.inject_points += 1;
                    run_one(a, &c, &format!("{}:{}", e, 2000 + k), &mut agg, max_print);
                }
            }
        }
        e += nshards;
    }
    let sum = J::obj()
        .set("t", J::s("summary"))
        .set("engine", J::S(format!("{:?}", ra.mode).to_lowercase()))
        .set("profile", J::s(ra.profile.name))
        .set("seed", J::u64(ra.seed))
        .set("shard", J::u64(shard))
        .set("cases", J::u64(agg.cases))
        .set("base_cases", J::u64(agg.base_cases))
        .set("distinct_cases", J::u(agg.case_hashes.len()))
        .set("distinct_signatures", J::u(agg.signatures.len()))
        .set("distinct_nontrivial", J::u(agg.nontrivial.len()))
        .set("events", J::u64(agg.events))
        .set("hook_events", J::u64(agg.hook_events))
        .set("switches", J::u64(agg.switches))
        .set("preempt_in_op", J::u64(agg.preempt_in_op))
        .set("overlapping_calls", J::u64(agg.overlapping_calls))
        .set("execs_with_overlap", J::u64(agg.execs_with_overlap))
        .set("probe_handoffs", J::u64(agg.probe_handoffs))
        .set("probe_calls", J::u64(agg.probe_calls))
        .set("handoffs", J::u64(agg.handoffs))
        .set("hb_accesses", J::u64(agg.hb_accesses))
        .set("hb_unordered", J::u64(agg.hb_unordered))
        .set("stuck", J::u64(agg.stuck))
        .set("waited_for_frozen", J::u64(agg.waited_for_frozen))
        .set("freeze_points", J::u64(agg.freeze_points))
        .set("inject_points", J::u64(agg.inject_points))
        .set("injected_panics_seen", J::u64(agg.injected_panics_seen))
        .set("spins_observed", J::u64(agg.spins_observed))
        .set("max_hook_events_in_one_op_known_size", J::u64(agg.max_hook_in_op_known))
        .set("max_hook_events_in_one_op_wrapped", J::u64(agg.max_hook_in_op_wrapped))
        .set("delivered", J::u64(agg.delivered))
        .set("ends", J::u64(agg.ends))
        .set("skips", J::u64(agg.skips))
        .set("queries", J::u64(agg.queries))
        .set("chunks", J::u64(agg.chunks))
        .set("short_chunks", J::u64(agg.short_chunks))
        .set("remainders", J::u64(agg.remainders))
        .set("remainder_items", J::u64(agg.remainder_items))
        .set("per_kind", J::from_map(&agg.per_kind))
        .set("per_op", J::from_map(&agg.per_op))
        .set("per_len", J::from_map(&agg.per_len))
        .set("per_rule", J::from_map(&agg.per_rule))
        .set("violations", J::u64(agg.violations))
        .set("violations_of_other_properties", J::u64(agg.other_props))
        .set("samples", J::A(agg.samples.clone()))
        .set("wall_s", J::F(t0.elapsed().as_secs_f64()));
    write_hashes(a.get("hash-out"), agg.nontrivial.iter());
    println!("{}", sum.render());
    if agg.violations > 0 {
        1
    } else {
        0
    }
}
