//! Probe iterators wrapped by `ConIterOfIter`: they report their own use (overlap detector with
//! relaxed RMWs that add no happens-before, access reports for the HB monitor, a scheduling point
//! inside `next`), keep their cursor in plain fields (the race target for Miri / TSan) and can be
//! told to panic at the k-th call.

use crate::elem::{u64_value, Injected, Tk};
use crate::sched::{self, PointKind};
use std::sync::atomic::{AtomicBool, AtomicI64, AtomicU32, Ordering::Relaxed};

pub struct ProbeCtl {
    pub in_use: AtomicBool,
    pub overlaps: AtomicU32,
    pub calls: AtomicI64,
    pub panic_at: AtomicI64,
    pub produced: AtomicU32,
    pub calls_after_none: AtomicU32,
    /// 0 = fused: keeps returning None; k > 0: after the first None, the k-th later call yields again
    pub revive_after: AtomicU32,
    /// thread that made the previous call (+1), and number of cross-thread hand-offs (relaxed: adds no happens-before)
    pub last_thread: AtomicU32,
    pub handoffs: AtomicU32,
}

pub static PROBE: ProbeCtl = ProbeCtl {
    in_use: AtomicBool::new(false),
    overlaps: AtomicU32::new(0),
    calls: AtomicI64::new(0),
    panic_at: AtomicI64::new(-1),
    produced: AtomicU32::new(0),
    calls_after_none: AtomicU32::new(0),
    revive_after: AtomicU32::new(0),
    last_thread: AtomicU32::new(0),
    handoffs: AtomicU32::new(0),
};

pub fn probe_reset() {
    PROBE.in_use.store(false, Relaxed);
    PROBE.overlaps.store(0, Relaxed);
    PROBE.calls.store(0, Relaxed);
    PROBE.panic_at.store(-1, Relaxed);
    PROBE.produced.store(0, Relaxed);
    PROBE.calls_after_none.store(0, Relaxed);
    PROBE.revive_after.store(0, Relaxed);
    PROBE.last_thread.store(0, Relaxed);
    PROBE.handoffs.store(0, Relaxed);
}

#[derive(Clone, Copy, Debug, PartialEq, Eq)]
pub enum Hint {
    Exact,
    /// (0, Some(len + 3))
    Inexact,
    /// (0, None)
    Unbounded,
    /// exact hint; NOT fused: polled again after its first None it yields "ghost" elements (ids >= len)
    ExactNonFused,
    /// (0, None); not fused
    UnboundedNonFused,
}

impl Hint {
    pub fn parse(s: &str) -> Hint {
        match s {
            "exact" => Hint::Exact,
            "inexact" => Hint::Inexact,
            "unbounded" => Hint::Unbounded,
            "exact_nf" => Hint::ExactNonFused,
            "unbounded_nf" => Hint::UnboundedNonFused,
            _ => panic!("bad hint {s}"),
        }
    }
    pub fn name(&self) -> &'static str {
        match self {
            Hint::Exact => "exact",
            Hint::Inexact => "inexact",
            Hint::Unbounded => "unbounded",
            Hint::ExactNonFused => "exact_nf",
            Hint::UnboundedNonFused => "unbounded_nf",
        }
    }
    fn of(&self, remaining: usize) -> (usize, Option<usize>) {
        match self {
            Hint::Exact | Hint::ExactNonFused => (remaining, Some(remaining)),
            Hint::Inexact => (0, Some(remaining + 3)),
            Hint::Unbounded | Hint::UnboundedNonFused => (0, None),
        }
    }
    pub fn is_exact(&self) -> bool {
        matches!(self, Hint::Exact | Hint::ExactNonFused)
    }
    pub fn non_fused(&self) -> bool {
        matches!(self, Hint::ExactNonFused | Hint::UnboundedNonFused)
    }
}

/// common entry protocol of every probe; returns true if this call must panic (injected fault)
#[inline]
fn pre_next() -> bool {
    if PROBE.in_use.swap(true, Relaxed) {
        PROBE.overlaps.fetch_add(1, Relaxed);
    }
    sched::probe_access();
    let me = sched::worker_id() as u32 + 1;
    let prev = PROBE.last_thread.swap(me, Relaxed);
    if prev != 0 && prev != me {
        PROBE.handoffs.fetch_add(1, Relaxed);
    }
    // another thread may be scheduled while this one is inside `next`
    sched::point(PointKind::User);
    let k = PROBE.calls.fetch_add(1, Relaxed);
    k == PROBE.panic_at.load(Relaxed)
}

#[inline]
fn injected_panic() -> ! {
    PROBE.in_use.store(false, Relaxed);
    std::panic::resume_unwind(Box::new(Injected("wrapped-next")));
}

/// returns true if this call must yield the element at the cursor
#[inline]
fn enter(pos: &mut usize, len: usize) -> bool {
    if pre_next() {
        // the element at the cursor is lost in the panic
        if *pos < len {
            *pos += 1;
        }
        injected_panic();
    }
    if *pos < len {
        *pos += 1;
        PROBE.produced.fetch_add(1, Relaxed);
        true
    } else {
        PROBE.calls_after_none.fetch_add(1, Relaxed);
        false
    }
}

/// `size_hint` reads the cursor: a (read) access to the wrapped iterator outside of `next`
#[inline]
fn hint_access() {
    if PROBE.in_use.load(Relaxed) {
        PROBE.overlaps.fetch_add(1, Relaxed);
    }
    sched::probe_read_access();
    sched::point(PointKind::User);
}

#[inline]
fn leave() {
    PROBE.in_use.store(false, Relaxed);
}

/// yields owned tracked elements, created lazily
pub struct ProbeOwned {
    pub pos: usize,
    pub len: usize,
    pub salt: u64,
    pub hint: Hint,
}

impl Iterator for ProbeOwned {
    type Item = Tk;
    fn next(&mut self) -> Option<Tk> {
        let r = if enter(&mut self.pos, self.len) {
            Some(Tk::new(self.pos - 1, self.salt))
        } else if self.hint.non_fused() && (2..6).contains(&PROBE.calls_after_none.load(Relaxed)) {
            // not fused: the first call at the end returns None, the next four return a ghost element each
            let g = PROBE.calls_after_none.load(Relaxed) as usize - 2;
            Some(Tk::new(self.len + g, self.salt))
        } else {
            None
        };
        leave();
        r
    }
    fn size_hint(&self) -> (usize, Option<usize>) {
        hint_access();
        self.hint.of(self.len - self.pos)
    }
}

/// yields references into a slice of tracked elements
pub struct ProbeRef<'a> {
    pub src: &'a [Tk],
    pub pos: usize,
    pub hint: Hint,
}

impl<'a> Iterator for ProbeRef<'a> {
    type Item = &'a Tk;
    fn next(&mut self) -> Option<&'a Tk> {
        let r = if enter(&mut self.pos, self.src.len()) { Some(&self.src[self.pos - 1]) } else { None };
        leave();
        r
    }
    fn size_hint(&self) -> (usize, Option<usize>) {
        hint_access();
        self.hint.of(self.src.len() - self.pos)
    }
}

/// yields references into a slice of u64 (for `copied`)
pub struct ProbeRefU64<'a> {
    pub src: &'a [u64],
    pub pos: usize,
    pub hint: Hint,
}

impl<'a> Iterator for ProbeRefU64<'a> {
    type Item = &'a u64;
    fn next(&mut self) -> Option<&'a u64> {
        let r = if enter(&mut self.pos, self.src.len()) { Some(&self.src[self.pos - 1]) } else { None };
        leave();
        r
    }
    fn size_hint(&self) -> (usize, Option<usize>) {
        hint_access();
        self.hint.of(self.src.len() - self.pos)
    }
}

pub fn mk_tk_vec(len: usize, salt: u64) -> Vec<Tk> {
    // exact capacity is not guaranteed by collect; build explicitly so that capacity == len is typical
    let mut v = Vec::with_capacity(len);
    for i in 0..len {
        v.push(Tk::new(i, salt));
    }
    v
}

pub fn mk_u64_vec(len: usize, salt: u64) -> Vec<u64> {
    (0..len).map(|i| u64_value(i, salt)).collect()
}

/// wraps any sequential iterator with the probe protocol (used for std iterators)
pub struct Traced<I> {
    pub inner: I,
    /// plain field written on every call: the race target for Miri / TSan
    pub calls: usize,
}

impl<I: Iterator> Iterator for Traced<I> {
    type Item = I::Item;
    fn next(&mut self) -> Option<I::Item> {
        if pre_next() {
            // the element at the cursor is lost in the panic
            drop(self.inner.next());
            injected_panic();
        }
        self.calls += 1;
        let r = self.inner.next();
        if r.is_some() {
            PROBE.produced.fetch_add(1, Relaxed);
        }
        leave();
        r
    }
    fn size_hint(&self) -> (usize, Option<usize>) {
        hint_access();
        // touch the plain field as well: the race target for Miri / TSan
        let _ = std::hint::black_box(self.calls);
        self.inner.size_hint()
    }
}
