//! Operation alphabet, per-thread scripts, seeded script generator, history records.

use crate::util::{Rng, J};

#[derive(Clone, Debug, PartialEq)]
pub enum Op {
    Next,
    NextIdVal,
    /// one-shot chunk of size n; consume `consume` items (usize::MAX = all), drop the rest
    Chunk { n: usize, consume: usize },
    /// buffered iterator of chunk size n; up to `pulls` pulls, each consuming `consume` items
    Buffered { n: usize, pulls: usize, consume: usize },
    /// `values()` for-loop adaptor, at most k items
    Values { k: usize },
    IdsValues { k: usize },
    ForEach { n: usize },
    EnumForEach { n: usize },
    Fold { n: usize },
    Len,
    HasMore,
    Skip,
    /// a single pull made from a destructor while the thread unwinds from an unrelated panic
    UnwindNext,
}

impl Op {
    pub fn name(&self) -> &'static str {
        match self {
            Op::Next => "next",
            Op::NextIdVal => "next_id_and_value",
            Op::Chunk { .. } => "next_chunk",
            Op::Buffered { .. } => "buffered",
            Op::Values { .. } => "values",
            Op::IdsValues { .. } => "ids_and_values",
            Op::ForEach { .. } => "for_each",
            Op::EnumForEach { .. } => "enumerate_for_each",
            Op::Fold { .. } => "fold",
            Op::Len => "try_get_len",
            Op::HasMore => "has_more",
            Op::Skip => "skip_to_end",
            Op::UnwindNext => "next_id_and_value(while unwinding)",
        }
    }
    pub fn code(&self) -> u8 {
        match self {
            Op::Next => 0,
            Op::NextIdVal => 1,
            Op::Chunk { .. } => 2,
            Op::Buffered { .. } => 3,
            Op::Values { .. } => 4,
            Op::IdsValues { .. } => 5,
            Op::ForEach { .. } => 6,
            Op::EnumForEach { .. } => 7,
            Op::Fold { .. } => 8,
            Op::Len => 9,
            Op::HasMore => 10,
            Op::Skip => 11,
            Op::UnwindNext => 12,
        }
    }
    pub fn is_pull(&self) -> bool {
        !matches!(self, Op::Len | Op::HasMore | Op::Skip)
    }
    pub fn render(&self) -> String {
        fn c(x: usize) -> String {
            if x == usize::MAX {
                "all".into()
            } else {
                x.to_string()
            }
        }
        match self {
            Op::Chunk { n, consume } => format!("next_chunk({}) consume {}", n, c(*consume)),
            Op::Buffered { n, pulls, consume } => format!("buffered_iter({}) x{} consume {}", n, c(*pulls), c(*consume)),
            Op::Values { k } => format!("values().take({})", c(*k)),
            Op::IdsValues { k } => format!("ids_and_values().take({})", c(*k)),
            Op::ForEach { n } => format!("for_each({})", n),
            Op::EnumForEach { n } => format!("enumerate_for_each({})", n),
            Op::Fold { n } => format!("fold({})", n),
            o => o.name().to_string(),
        }
    }
}

pub const OP_NAMES: [&str; 13] = [
    "next",
    "next_id_and_value",
    "next_chunk",
    "buffered",
    "values",
    "ids_and_values",
    "for_each",
    "enumerate_for_each",
    "fold",
    "try_get_len",
    "has_more",
    "skip_to_end",
    "next_id_and_value(while unwinding)",
];

#[derive(Clone, Debug, Default)]
pub struct Script {
    pub pre: Vec<Op>,
    /// pull ops executed cyclically until this thread observes the end
    pub drain: Vec<Op>,
    /// executed after the drain (or directly after `pre`): pulls past the end, queries
    pub post: Vec<Op>,
}

impl Script {
    pub fn hash_into(&self, h: &mut crate::util::Fnv) {
        for (tag, v) in [(1u64, &self.pre), (2, &self.drain), (3, &self.post)] {
            h.add(tag);
            for o in v {
                h.add(o.code() as u64);
                match o {
                    Op::Chunk { n, consume } => {
                        h.add(*n as u64);
                        h.add(*consume as u64);
                    }
                    Op::Buffered { n, pulls, consume } => {
                        h.add(*n as u64);
                        h.add(*pulls as u64);
                        h.add(*consume as u64);
                    }
                    Op::Values { k } | Op::IdsValues { k } => h.add(*k as u64),
                    Op::ForEach { n } | Op::EnumForEach { n } | Op::Fold { n } => h.add(*n as u64),
                    _ => {}
                }
            }
        }
    }
    pub fn render(&self) -> J {
        let r = |v: &Vec<Op>| J::A(v.iter().map(|o| J::S(o.render())).collect());
        J::obj().set("pre", r(&self.pre)).set("drain_until_end", r(&self.drain)).set("post", r(&self.post))
    }
}

/// Relative weights of operations and shape parameters, chosen per property focus.
#[derive(Clone, Debug)]
pub struct Profile {
    pub name: &'static str,
    pub w: [u32; 12],
    /// probability (x/16) that a thread drains until it observes the end
    pub drain16: u32,
    /// probability (x/16) that pulls past the end / after a skip are appended
    pub post16: u32,
    pub max_pre: usize,
    /// allow skip_to_end inside scripts
    pub skips: bool,
    /// probability (x/16) that a chunk size is huge (usize::MAX, MAX/2, MAX-7)
    pub huge16: u32,
    /// probability (x/16) that a one-shot chunk requests zero elements
    pub zero16: u32,
    /// probability (x/64) that a single pull is made from a destructor during unwinding
    pub unwind64: u32,
}

pub fn profile(name: &str) -> Profile {
    //            next nid chunk buf vals ids fe efe fold len more skip
    let base = [6, 6, 6, 5, 2, 2, 1, 1, 1, 2, 2, 0];
    match name {
        "mixed" => Profile { name: "mixed", w: base, drain16: 10, post16: 8, max_pre: 6, skips: false, huge16: 0, zero16: 0, unwind64: 1 },
        "pulls" => Profile { name: "pulls", w: [6, 6, 7, 6, 3, 3, 2, 2, 2, 0, 0, 0], drain16: 14, post16: 4, max_pre: 5, skips: false, huge16: 0, zero16: 0, unwind64: 1 },
        "index" => Profile { name: "index", w: [1, 8, 6, 6, 0, 5, 0, 4, 0, 0, 0, 0], drain16: 12, post16: 2, max_pre: 6, skips: false, huge16: 0, zero16: 0, unwind64: 1 },
        "chunks" => Profile { name: "chunks", w: [2, 2, 10, 10, 0, 0, 1, 1, 1, 0, 0, 0], drain16: 10, post16: 4, max_pre: 7, skips: false, huge16: 2, zero16: 0, unwind64: 1 },
        "order" => Profile { name: "order", w: [6, 8, 6, 5, 2, 2, 0, 0, 0, 1, 1, 0], drain16: 6, post16: 3, max_pre: 8, skips: false, huge16: 2, zero16: 0, unwind64: 1 },
        "pastend" => Profile { name: "pastend", w: [6, 6, 5, 5, 2, 2, 1, 1, 1, 3, 3, 0], drain16: 14, post16: 16, max_pre: 3, skips: false, huge16: 0, zero16: 0, unwind64: 1 },
        "skip" => Profile { name: "skip", w: [6, 6, 5, 5, 2, 2, 1, 1, 1, 3, 3, 5], drain16: 6, post16: 16, max_pre: 6, skips: true, huge16: 0, zero16: 0, unwind64: 1 },
        "len" => Profile { name: "len", w: [5, 5, 5, 4, 1, 1, 1, 1, 0, 8, 8, 1], drain16: 8, post16: 10, max_pre: 8, skips: true, huge16: 0, zero16: 0, unwind64: 1 },
        "foreach" => Profile { name: "foreach", w: [2, 2, 2, 2, 1, 1, 6, 6, 6, 0, 0, 0], drain16: 8, post16: 6, max_pre: 3, skips: false, huge16: 0, zero16: 0, unwind64: 1 },
        "iterwait" => Profile { name: "iterwait", w: [6, 6, 6, 6, 2, 2, 1, 1, 1, 1, 1, 2], drain16: 8, post16: 6, max_pre: 6, skips: true, huge16: 0, zero16: 0, unwind64: 1 },
        "zero" => Profile { name: "zero", w: [5, 5, 8, 4, 1, 1, 1, 1, 0, 5, 5, 1], drain16: 6, post16: 6, max_pre: 8, skips: true, huge16: 1, zero16: 4, unwind64: 0 },
        "zeroeach" => Profile { name: "zeroeach", w: [2, 2, 6, 2, 1, 1, 5, 5, 5, 1, 1, 0], drain16: 8, post16: 4, max_pre: 4, skips: false, huge16: 0, zero16: 6, unwind64: 0 },
        "skiprace" => Profile { name: "skiprace", w: [1, 1, 10, 10, 0, 0, 1, 1, 1, 1, 1, 6], drain16: 4, post16: 8, max_pre: 5, skips: true, huge16: 0, zero16: 0, unwind64: 1 },
        "race" => Profile { name: "race", w: [6, 3, 3, 3, 1, 1, 1, 1, 0, 2, 2, 1], drain16: 16, post16: 2, max_pre: 2, skips: true, huge16: 0, zero16: 0, unwind64: 1 },
        "drops" => Profile { name: "drops", w: [5, 5, 8, 8, 1, 1, 1, 1, 1, 0, 0, 2], drain16: 5, post16: 4, max_pre: 6, skips: true, huge16: 0, zero16: 0, unwind64: 1 },
        other => panic!("unknown profile {other}"),
    }
}

fn chunk_size(rng: &mut Rng, len: usize, huge16: u32) -> usize {
    if huge16 > 0 && rng.chance(huge16, 16) {
        return *rng.pick(&[usize::MAX, usize::MAX / 2, usize::MAX - 7]);
    }
    let cands = [1, 2, 3, len.saturating_sub(1), len, len + 1, 2 * len, 4, 7, 64, 1024];
    loop {
        let n = *rng.pick(&cands);
        if n >= 1 {
            return n;
        }
    }
}

fn consume_count(rng: &mut Rng, n: usize) -> usize {
    match rng.below(4) {
        0 | 1 => usize::MAX,
        2 => 0,
        _ => rng.below(n.min(8) + 1),
    }
}

pub fn gen_op(rng: &mut Rng, p: &Profile, len: usize, pulls_only: bool, wrapped: bool) -> Op {
    // a wrapped iterator allocates chunk_size slots for buffered pulls (documented): no huge sizes there
    let huge_buf = if wrapped { 0 } else { p.huge16 };
    let total: u32 = p.w.iter().enumerate().map(|(i, w)| if pulls_only && i >= 9 { 0 } else { *w }).sum();
    let mut x = (rng.next_u64() % total.max(1) as u64) as u32;
    let mut code = 0;
    for (i, w) in p.w.iter().enumerate() {
        let w = if pulls_only && i >= 9 { 0 } else { *w };
        if x < w {
            code = i;
            break;
        }
        x -= w;
    }
    match code {
        0 | 1 if p.unwind64 > 0 && rng.chance(p.unwind64, 64) => Op::UnwindNext,
        0 => Op::Next,
        1 => Op::NextIdVal,
        2 => {
            let n = if p.zero16 > 0 && rng.chance(p.zero16, 16) { 0 } else { chunk_size(rng, len, p.huge16) };
            Op::Chunk { n, consume: consume_count(rng, n) }
        }
        3 => {
            let n = chunk_size(rng, len, huge_buf);
            Op::Buffered { n, pulls: rng.range(1, 4), consume: consume_count(rng, n) }
        }
        4 => Op::Values { k: rng.range(1, 4) },
        5 => Op::IdsValues { k: rng.range(1, 4) },
        6 => Op::ForEach { n: chunk_size(rng, len, 0).min(64) },
        7 => Op::EnumForEach { n: chunk_size(rng, len, 0).min(64) },
        8 => Op::Fold { n: chunk_size(rng, len, 0).min(64) },
        9 => Op::Len,
        10 => Op::HasMore,
        _ => Op::Skip,
    }
}

pub fn gen_script(rng: &mut Rng, p: &Profile, len: usize, wrapped: bool) -> Script {
    let mut s = Script::default();
    let npre = rng.below(p.max_pre + 1);
    for _ in 0..npre {
        s.pre.push(gen_op(rng, p, len, false, wrapped));
    }
    if rng.chance(p.drain16, 16) {
        let k = rng.range(1, 3);
        for _ in 0..k {
            let mut op = gen_op(rng, p, len, true, wrapped);
            // a drain loop makes progress with every iteration: pull at least one item
            if let Op::Buffered { pulls, .. } = &mut op {
                *pulls = (*pulls).max(1);
            }
            if let Op::Chunk { n, .. } = &mut op {
                *n = (*n).max(1);
            }
            s.drain.push(op);
        }
    }
    if rng.chance(p.post16, 16) {
        let m = len.min(40) + 8;
        for i in 0..m {
            let op = match rng.below(10) {
                0..=3 => Op::Next,
                4..=5 => Op::NextIdVal,
                6 => Op::Chunk { n: rng.range(1, 3), consume: usize::MAX },
                7 => Op::Buffered { n: rng.range(1, 3), pulls: 1, consume: usize::MAX },
                8 => Op::Len,
                _ => Op::HasMore,
            };
            let _ = i;
            s.post.push(op);
        }
    }
    s
}

// ------------------------------------------------------------------------------------------------
// history records

#[derive(Clone, Copy, Debug)]
pub struct Item {
    /// index reported with the item (usize::MAX = none reported)
    pub idx: usize,
    /// decoded source position
    pub id: u64,
    pub addr: usize,
    pub sane: bool,
    pub is_clone: bool,
    /// stamp of the moment the item was seen (closure invocation for for_each/fold)
    pub t: u64,
}

#[derive(Clone, Debug)]
pub enum Res {
    /// the pull reported the end
    End,
    /// a pull delivered items. `begin`: reported begin index (MAX = none). `announced`: `len()` of the
    /// chunk before consumption (MAX = not a chunk). `requested`: chunk size asked for (1 for single pulls).
    Items { begin: usize, announced: usize, requested: usize, items: Vec<Item>, len_trace_ok: bool, extra_after_end: bool },
    /// for_each / enumerate_for_each / fold returned normally: everything it delivered, opaque internal pulls
    Opaque { items: Vec<Item>, fold_ok: bool },
    Len(Option<usize>),
    /// 0 = No, 1 = Maybe, 2 = Yes(n)
    More(u8, usize),
    Skip,
    /// `next_chunk(0)` returned None: no statement about the end
    Empty,
    /// the call panicked: class = "injected:<where>" or the message of an unexpected panic
    Panic { class: String, items: Vec<Item> },
}

#[derive(Clone, Debug)]
pub struct Rec {
    pub thread: u8,
    pub op: u8,
    pub t0: u64,
    pub t1: u64,
    pub res: Res,
}

impl Rec {
    pub fn render(&self) -> J {
        let items = |v: &Vec<Item>| {
            J::A(v.iter()
                .map(|i| {
                    if i.idx == usize::MAX {
                        J::u64(i.id)
                    } else {
                        J::A(vec![J::u(i.idx), J::u64(i.id)])
                    }
                })
                .collect())
        };
        let mut j = J::obj().set("thread", J::u(self.thread as usize)).set("op", J::s(OP_NAMES[self.op as usize])).set("call", J::u64(self.t0)).set("ret", J::u64(self.t1));
        match &self.res {
            Res::End => j.put("result", J::s("end")),
            Res::Items { begin, announced, requested, items: it, .. } => {
                if *begin != usize::MAX {
                    j.put("begin_idx", J::u(*begin));
                }
                if *announced != usize::MAX {
                    j.put("announced_len", J::u(*announced));
                    j.put("requested", J::u(*requested));
                }
                j.put("items(idx,pos)", items(it));
            }
            Res::Opaque { items: it, .. } => {
                j.put("returned", J::B(true));
                j.put("items(idx,pos)", items(it));
            }
            Res::Len(v) => j.put("len", v.map(J::u).unwrap_or(J::Null)),
            Res::More(k, n) => j.put("has_more", match k {
                0 => J::s("No"),
                1 => J::s("Maybe"),
                _ => J::S(format!("Yes({n})")),
            }),
            Res::Skip => j.put("result", J::s("skipped")),
            Res::Empty => j.put("result", J::s("nothing requested")),
            Res::Panic { class, items: it } => {
                j.put("panic", J::s(class));
                j.put("items(idx,pos)", items(it));
            }
        }
        j
    }
}
