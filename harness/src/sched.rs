//! E1: baton scheduler, freeze adversary, logical stuck verdict, happens-before monitor.
//!
//! Worker threads are real OS threads executing real crate code, but only the holder of the baton
//! runs. At every reported atomic operation of the crate (hook `pre`), at every operation boundary
//! and inside harness-side user code (probe iterator, clone, closures) the holder asks a seeded
//! policy whom to run next. All scheduler state is touched by the baton holder only.

use crate::util::{Fnv, Rng};
use std::cell::{Cell, UnsafeCell};
use std::collections::HashMap;
use std::sync::atomic::{AtomicBool, AtomicPtr, AtomicU32, AtomicU64, AtomicUsize, Ordering};
use std::sync::OnceLock;
use std::thread::Thread;

pub const MAXT: usize = 8;
const NOBODY: usize = usize::MAX;
/// a thread whose last S scheduling points were all loads counts as spinning
pub const SPIN_S: u32 = 24;
/// consecutive load-only points (no RMW, store, op boundary anywhere) after which the execution is stuck
pub const STUCK_L: u64 = 600;

#[derive(Clone, Copy, Debug, PartialEq, Eq)]
pub enum PointKind {
    /// crate atomic operation about to execute: load-like
    HookLoad,
    /// crate atomic operation about to execute: store / RMW / fence
    HookWrite,
    /// harness: an API call is about to start / has returned
    OpStart,
    OpEnd,
    /// harness-side user code reached through the crate (probe `next`, `clone`, closure)
    User,
}

#[derive(Clone, Debug)]
pub enum Policy {
    /// stay on the current thread with probability num/den, else uniform
    Walk { num: u32, den: u32 },
    /// PCT-like: random priorities, `changes` priority drops at random event indices < horizon
    Pct { changes: usize, horizon: u64 },
    /// thread `victim` only runs when nobody else can
    Starve { victim: usize },
}

#[derive(Clone, Copy, Debug, PartialEq, Eq)]
enum TState {
    NotStarted,
    Runnable,
    Frozen,
    Finished,
}

pub struct Teardown;

#[derive(Clone, Debug, Default)]
pub struct SchedReport {
    pub events: u64,
    pub hook_events: u64,
    pub switches: u64,
    pub preempt_in_op: u64,
    pub signature: u64,
    pub stuck: bool,
    pub stuck_detail: String,
    /// unfrozen threads could not finish while one thread was frozen
    pub waited_for_frozen: bool,
    pub frozen_at: Option<(usize, u64)>,
    pub points_per_thread: Vec<u64>,
    pub spins_observed: u64,
    pub max_hook_events_in_one_op: u64,
    pub hb: HbReport,
}

#[derive(Clone, Debug, Default)]
pub struct HbReport {
    pub accesses: u64,
    pub handoffs: u64,
    pub unordered: u64,
    pub first_unordered: String,
    pub shapes: Vec<(usize, usize)>,
}

struct Inner {
    n: usize,
    rng: Rng,
    policy: Policy,
    state: [TState; MAXT],
    consec_loads: [u32; MAXT],
    in_window: [u32; MAXT],
    loads_since_progress: u64,
    events: u64,
    hook_events: u64,
    switches: u64,
    preempt_in_op: u64,
    sig: Fnv,
    points: [u64; MAXT],
    hook_in_op: [u64; MAXT],
    max_hook_in_op: u64,
    spins_observed: u64,
    freeze: Option<(usize, u64)>,
    frozen_at: Option<(usize, u64)>,
    frozen_tid: Option<usize>,
    waited_for_frozen: bool,
    prio: [u32; MAXT],
    change_points: Vec<u64>,
    next_low_prio: u32,
    stuck: bool,
    stuck_detail: String,
    last_addr: [usize; MAXT],
    hb: Hb,
}

pub struct Sched {
    inner: UnsafeCell<Inner>,
    turn: AtomicUsize,
    abort: AtomicBool,
    arrived: AtomicUsize,
    handles: [OnceLock<Thread>; MAXT],
}

unsafe impl Sync for Sched {}

static ACTIVE: AtomicPtr<Sched> = AtomicPtr::new(std::ptr::null_mut());

thread_local! {
    static TID: Cell<usize> = const { Cell::new(NOBODY) };
    static PRNG: Cell<u64> = const { Cell::new(0) };
}

/// sequential mode: the only thread that runs crate code is declared stuck after this many consecutive loads
pub const SEQ_STUCK_LOADS: u64 = 20_000;
pub static SEQ_GUARD: AtomicBool = AtomicBool::new(false);
pub static SEQ_STUCK: AtomicBool = AtomicBool::new(false);
thread_local! { static SEQ_LOADS: Cell<u64> = const { Cell::new(0) }; }

/// free-running perturbation intensity (0 = off): at crate atomic steps a thread spins / yields at random
pub static PERTURB: AtomicU32 = AtomicU32::new(0);
/// clock used for call/return stamps
pub static CLOCK: AtomicU64 = AtomicU64::new(1);
/// race mode: no harness synchronisation between pulls (thread-local clock, real-time rules off)
pub static RACE_MODE: AtomicBool = AtomicBool::new(false);

thread_local! { static LOCAL_CLOCK: Cell<u64> = const { Cell::new(1) }; }

#[inline]
pub fn now() -> u64 {
    if RACE_MODE.load(Ordering::Relaxed) {
        LOCAL_CLOCK.with(|c| {
            let v = c.get() + 1;
            c.set(v);
            v
        })
    } else {
        CLOCK.fetch_add(1, Ordering::SeqCst)
    }
}

thread_local! { static WORKER: Cell<usize> = const { Cell::new(0) }; }
/// index of the current harness worker thread (all modes)
pub fn worker_id() -> usize {
    WORKER.with(|w| w.get())
}
pub fn set_worker_id(t: usize) {
    WORKER.with(|w| w.set(t));
}

pub fn set_thread_seed(seed: u64) {
    PRNG.with(|p| p.set(seed | 1));
}

#[inline]
fn active() -> Option<&'static Sched> {
    let p = ACTIVE.load(Ordering::Acquire);
    if p.is_null() {
        None
    } else {
        Some(unsafe { &*p })
    }
}

pub fn current_tid() -> Option<usize> {
    let t = TID.with(|t| t.get());
    if t == NOBODY {
        None
    } else {
        Some(t)
    }
}

/// A scheduling point reached by harness-side code.
#[inline]
pub fn point(kind: PointKind) {
    let tid = TID.with(|t| t.get());
    if tid == NOBODY {
        if kind == PointKind::User || kind == PointKind::HookLoad || kind == PointKind::HookWrite {
            perturb();
        }
        return;
    }
    if let Some(s) = active() {
        s.point(tid, kind, 0);
    }
}

#[inline]
fn perturb() {
    let p = PERTURB.load(Ordering::Relaxed);
    if p == 0 {
        return;
    }
    let r = PRNG.with(|c| {
        let mut x = c.get();
        if x == 0 {
            return 0;
        }
        x ^= x << 13;
        x ^= x >> 7;
        x ^= x << 17;
        c.set(x);
        x
    });
    if r == 0 {
        return;
    }
    match r % 16 {
        0 | 1 => std::thread::yield_now(),
        2 if p > 1 => {
            for _ in 0..(r >> 8) % 200 {
                std::hint::spin_loop();
            }
        }
        3 if p > 2 => std::thread::sleep(std::time::Duration::from_micros((r >> 12) % 50)),
        _ => {}
    }
}

#[cfg(orx_concurrent_iter_verif)]
mod hooks {
    use super::*;
    use orx_concurrent_iter::verif_hooks::{self as vh, Event, OpKind};

    fn pre(addr: usize, kind: OpKind, _ord: vh::Ordering) {
        let tid = TID.with(|t| t.get());
        if tid == NOBODY {
            if SEQ_GUARD.load(Ordering::Relaxed) {
                // exactly one thread runs crate code (sequential mode): if it only loads, nothing can
                // ever change what it reads
                let n = SEQ_LOADS.with(|c| {
                    let v = if kind == OpKind::Load { c.get() + 1 } else { 0 };
                    c.set(v);
                    v
                });
                if n > SEQ_STUCK_LOADS && !std::thread::panicking() {
                    SEQ_LOADS.with(|c| c.set(0));
                    SEQ_STUCK.store(true, Ordering::Relaxed);
                    std::panic::resume_unwind(Box::new(Teardown));
                }
            }
            perturb();
            return;
        }
        if let Some(s) = active() {
            let k = match kind {
                OpKind::Load => PointKind::HookLoad,
                _ => PointKind::HookWrite,
            };
            s.point(tid, k, addr);
        }
    }

    fn post(ev: &Event) {
        let tid = TID.with(|t| t.get());
        if tid == NOBODY {
            return;
        }
        if let Some(s) = active() {
            s.on_event(tid, ev);
        }
    }

    pub fn install() {
        vh::set_hooks(Some(pre), Some(post));
    }

    impl Sched {
        fn on_event(&self, tid: usize, ev: &Event) {
            if self.abort.load(Ordering::Relaxed) {
                return;
            }
            let inner = unsafe { &mut *self.inner.get() };
            match ev.kind {
                OpKind::Load => {}
                OpKind::CasFail => {
                    // a failed compare-exchange changes nothing: it counts as a load
                    inner.consec_loads[tid] = inner.consec_loads[tid].saturating_add(1);
                    inner.in_window[tid] = inner.in_window[tid].saturating_add(1);
                    inner.loads_since_progress += 1;
                    if inner.consec_loads[tid] == SPIN_S {
                        inner.spins_observed += 1;
                    }
                    inner.last_addr[tid] = ev.addr;
                }
                OpKind::Store | OpKind::Rmw | OpKind::Fence => {
                    // a store / RMW that leaves the value unchanged cannot release a waiting thread either,
                    // but it is rare enough to be treated as progress
                    inner.consec_loads[tid] = 0;
                    inner.note_progress();
                }
            }
            let acq = matches!(ev.ordering, vh::Ordering::Acquire | vh::Ordering::AcqRel | vh::Ordering::SeqCst);
            let rel = matches!(ev.ordering, vh::Ordering::Release | vh::Ordering::AcqRel | vh::Ordering::SeqCst);
            match ev.kind {
                OpKind::Load | OpKind::CasFail => inner.hb.load(tid, ev.addr, acq),
                OpKind::Store => inner.hb.store(tid, ev.addr, rel),
                OpKind::Rmw => inner.hb.rmw(tid, ev.addr, acq, rel),
                OpKind::Fence => inner.hb.fence(tid, acq, rel),
            }
        }
    }
}

#[cfg(orx_concurrent_iter_verif)]
pub fn install_hooks() {
    hooks::install();
}
#[cfg(not(orx_concurrent_iter_verif))]
pub fn install_hooks() {}

pub const HOOKS_AVAILABLE: bool = cfg!(orx_concurrent_iter_verif);

/// Harness-side report of a (write) access to the wrapped iterator by the current thread.
pub fn probe_access() {
    let tid = TID.with(|t| t.get());
    if tid == NOBODY {
        return;
    }
    if let Some(s) = active() {
        if s.abort.load(Ordering::Relaxed) {
            return;
        }
        let inner = unsafe { &mut *s.inner.get() };
        inner.hb.access(tid);
    }
}

/// Harness-side report of a read access to the wrapped iterator (e.g. `size_hint`).
pub fn probe_read_access() {
    let tid = TID.with(|t| t.get());
    if tid == NOBODY {
        return;
    }
    if let Some(s) = active() {
        if s.abort.load(Ordering::Relaxed) {
            return;
        }
        let inner = unsafe { &mut *s.inner.get() };
        inner.hb.read_access(tid);
    }
}

impl Sched {
    pub fn new(n: usize, policy: Policy, seed: u64, freeze: Option<(usize, u64)>) -> Box<Sched> {
        assert!(n >= 1 && n <= MAXT);
        let mut rng = Rng::new(seed);
        let mut prio = [0u32; MAXT];
        let mut change_points = Vec::new();
        if let Policy::Pct { changes, horizon } = &policy {
            // random distinct priorities n+changes .. down to changes+1
            let mut order: Vec<usize> = (0..n).collect();
            for i in (1..n).rev() {
                let j = rng.below(i + 1);
                order.swap(i, j);
            }
            for (rank, &t) in order.iter().enumerate() {
                prio[t] = (*changes + 1 + rank) as u32;
            }
            for _ in 0..*changes {
                change_points.push(rng.next_u64() % horizon.max(&1));
            }
            change_points.sort();
        }
        let next_low_prio = match &policy {
            Policy::Pct { changes, .. } => *changes as u32,
            _ => 0,
        };
        Box::new(Sched {
            inner: UnsafeCell::new(Inner {
                n,
                rng,
                policy,
                state: [TState::NotStarted; MAXT],
                consec_loads: [0; MAXT],
                in_window: [0; MAXT],
                loads_since_progress: 0,
                events: 0,
                hook_events: 0,
                switches: 0,
                preempt_in_op: 0,
                sig: Fnv::new(),
                points: [0; MAXT],
                hook_in_op: [0; MAXT],
                max_hook_in_op: 0,
                spins_observed: 0,
                freeze,
                frozen_at: None,
                frozen_tid: None,
                waited_for_frozen: false,
                prio,
                change_points,
                next_low_prio,
                stuck: false,
                stuck_detail: String::new(),
                last_addr: [0; MAXT],
                hb: Hb::new(n),
            }),
            turn: AtomicUsize::new(NOBODY),
            abort: AtomicBool::new(false),
            arrived: AtomicUsize::new(0),
            handles: Default::default(),
        })
    }

    /// Makes this scheduler the process-wide active one. Must be paired with `deactivate`.
    pub fn activate(&self) {
        ACTIVE.store(self as *const Sched as *mut Sched, Ordering::Release);
    }
    pub fn deactivate(&self) {
        ACTIVE.store(std::ptr::null_mut(), Ordering::Release);
    }

    /// Called by worker `tid` first thing; returns when it is given the baton.
    pub fn enter(&self, tid: usize) {
        TID.with(|t| t.set(tid));
        let _ = self.handles[tid].set(std::thread::current());
        self.arrived.fetch_add(1, Ordering::AcqRel);
        self.wait_turn(tid);
    }

    /// Called by the main thread after spawning all workers.
    pub fn start(&self) {
        let inner = unsafe { &mut *self.inner.get() };
        while self.arrived.load(Ordering::Acquire) < inner.n {
            std::thread::yield_now();
        }
        for t in 0..inner.n {
            inner.state[t] = TState::Runnable;
        }
        let first = inner.pick(NOBODY);
        inner.sig.add(first as u64);
        self.turn.store(first, Ordering::Release);
        self.handles[first].get().expect("handle").unpark();
    }

    fn wait_turn(&self, me: usize) {
        let mut spins = 0u32;
        loop {
            if self.abort.load(Ordering::Acquire) {
                self.teardown_self();
                return;
            }
            if self.turn.load(Ordering::Acquire) == me {
                return;
            }
            spins += 1;
            if spins < 2000 {
                std::hint::spin_loop();
            } else {
                std::thread::park();
            }
        }
    }

    /// leaves the scheduler: unwinds out of the crate with a private payload; a thread that is already unwinding
    /// (a pull made by a destructor) cannot panic again and simply continues unscheduled
    fn teardown_self(&self) {
        TID.with(|t| t.set(NOBODY));
        if !std::thread::panicking() {
            std::panic::resume_unwind(Box::new(Teardown));
        }
    }

    fn abort_all(&self) {
        self.abort.store(true, Ordering::Release);
        for h in self.handles.iter() {
            if let Some(h) = h.get() {
                h.unpark();
            }
        }
        self.teardown_self();
    }

    fn handoff(&self, from: usize, to: usize) {
        self.turn.store(to, Ordering::Release);
        self.handles[to].get().expect("handle").unpark();
        if from != NOBODY {
            self.wait_turn(from);
        }
    }

    /// Worker `tid` has finished its script (holding the baton).
    pub fn exit(&self, tid: usize) {
        TID.with(|t| t.set(NOBODY));
        if self.abort.load(Ordering::Acquire) {
            return;
        }
        let inner = unsafe { &mut *self.inner.get() };
        inner.state[tid] = TState::Finished;
        inner.note_progress();
        let next = self.choose_next(inner, NOBODY);
        match next {
            Some(n) => {
                inner.sig.add(n as u64);
                self.turn.store(n, Ordering::Release);
                self.handles[n].get().expect("handle").unpark();
            }
            None => self.turn.store(NOBODY, Ordering::Release),
        }
    }

    /// picks the next thread to run; unfreezes the frozen thread when nobody else can run
    fn choose_next(&self, inner: &mut Inner, cur: usize) -> Option<usize> {
        let any = (0..inner.n).any(|t| inner.state[t] == TState::Runnable);
        if !any {
            if let Some(f) = inner.frozen_tid.take() {
                inner.state[f] = TState::Runnable;
            } else {
                return None;
            }
        }
        Some(inner.pick(cur))
    }

    fn point(&self, tid: usize, kind: PointKind, addr: usize) {
        if self.abort.load(Ordering::Acquire) {
            self.teardown_self();
            return;
        }
        let inner = unsafe { &mut *self.inner.get() };
        debug_assert_eq!(self.turn.load(Ordering::Relaxed), tid);
        inner.events += 1;
        inner.points[tid] += 1;
        match kind {
            PointKind::HookLoad => {
                inner.hook_events += 1;
                inner.hook_in_op[tid] += 1;
                // a load of a different location than the previous one still is a load; spinning
                // loops of the crate alternate between at most a few locations
                inner.consec_loads[tid] = inner.consec_loads[tid].saturating_add(1);
                inner.in_window[tid] = inner.in_window[tid].saturating_add(1);
                inner.loads_since_progress += 1;
                if inner.consec_loads[tid] == SPIN_S {
                    inner.spins_observed += 1;
                }
                inner.last_addr[tid] = addr;
            }
            PointKind::HookWrite => {
                // whether this is progress is known only afterwards (a failed compare-exchange is a load):
                // accounted for in `on_event`
                inner.hook_events += 1;
                inner.hook_in_op[tid] += 1;
            }
            PointKind::OpStart => {
                inner.hook_in_op[tid] = 0;
                inner.consec_loads[tid] = 0;
                inner.note_progress();
            }
            PointKind::OpEnd => {
                inner.max_hook_in_op = inner.max_hook_in_op.max(inner.hook_in_op[tid]);
                inner.consec_loads[tid] = 0;
                inner.note_progress();
            }
            PointKind::User => {
                inner.consec_loads[tid] = 0;
                inner.note_progress();
            }
        }
        // PCT priority change points
        while let Some(&cp) = inner.change_points.first() {
            if cp <= inner.events {
                inner.change_points.remove(0);
                inner.prio[tid] = inner.next_low_prio;
                inner.next_low_prio = inner.next_low_prio.saturating_sub(1);
            } else {
                break;
            }
        }
        // freeze adversary
        if let Some((ft, fk)) = inner.freeze {
            if ft == tid && inner.points[tid] == fk {
                inner.freeze = None;
                if (0..inner.n).any(|t| t != tid && inner.state[t] == TState::Runnable) {
                    inner.state[tid] = TState::Frozen;
                    inner.frozen_tid = Some(tid);
                    inner.frozen_at = Some((tid, fk));
                }
            }
        }
        // logical stuck verdict
        if inner.loads_since_progress >= STUCK_L {
            let live: Vec<usize> = (0..inner.n).filter(|&t| inner.state[t] == TState::Runnable).collect();
            let all_spinning = live.iter().all(|&t| inner.consec_loads[t] >= SPIN_S && inner.in_window[t] >= SPIN_S);
            if all_spinning {
                if let Some(f) = inner.frozen_tid.take() {
                    // the unfrozen threads cannot finish while `f` is frozen
                    inner.waited_for_frozen = true;
                    inner.state[f] = TState::Runnable;
                    inner.note_progress();
                    for t in 0..inner.n {
                        inner.consec_loads[t] = 0;
                    }
                } else {
                    inner.stuck = true;
                    inner.stuck_detail = format!(
                        "all {} live threads only load (>= {} consecutive load-only events); spinning on addresses {:?}",
                        live.len(),
                        inner.loads_since_progress,
                        live.iter().map(|&t| inner.last_addr[t]).collect::<Vec<_>>()
                    );
                    self.abort_all();
                    return;
                }
            }
        }
        let next = match self.choose_next(inner, tid) {
            Some(n) => n,
            None => return,
        };
        if next != tid {
            inner.switches += 1;
            if !matches!(kind, PointKind::OpStart | PointKind::OpEnd) {
                inner.preempt_in_op += 1;
            }
            inner.sig.add(next as u64 | (inner.events << 8));
            self.handoff(tid, next);
        }
    }

    pub fn report(&self) -> SchedReport {
        let inner = unsafe { &mut *self.inner.get() };
        SchedReport {
            events: inner.events,
            hook_events: inner.hook_events,
            switches: inner.switches,
            preempt_in_op: inner.preempt_in_op,
            signature: inner.sig.0,
            stuck: inner.stuck,
            stuck_detail: inner.stuck_detail.clone(),
            waited_for_frozen: inner.waited_for_frozen,
            frozen_at: inner.frozen_at,
            points_per_thread: inner.points[..inner.n].to_vec(),
            spins_observed: inner.spins_observed,
            max_hook_events_in_one_op: inner.max_hook_in_op,
            hb: inner.hb.report(),
        }
    }

    pub fn aborted(&self) -> bool {
        self.abort.load(Ordering::Acquire)
    }
}

impl Inner {
    fn note_progress(&mut self) {
        self.loads_since_progress = 0;
        for t in 0..self.n {
            self.in_window[t] = 0;
        }
    }

    fn pick(&mut self, cur: usize) -> usize {
        let runnable: Vec<usize> = (0..self.n).filter(|&t| self.state[t] == TState::Runnable).collect();
        debug_assert!(!runnable.is_empty());
        let active: Vec<usize> = runnable.iter().copied().filter(|&t| self.consec_loads[t] < SPIN_S).collect();
        if active.is_empty() {
            // everybody spins: round robin so that each gets its share of the window
            let start = if cur == NOBODY { 0 } else { cur + 1 };
            for d in 0..self.n {
                let t = (start + d) % self.n;
                if self.state[t] == TState::Runnable {
                    return t;
                }
            }
            return runnable[0];
        }
        match self.policy {
            Policy::Walk { num, den } => {
                if active.contains(&cur) && self.rng.chance(num, den) {
                    cur
                } else {
                    *self.rng.pick(&active)
                }
            }
            Policy::Pct { .. } => {
                let mut best = active[0];
                for &t in &active {
                    if self.prio[t] > self.prio[best] {
                        best = t;
                    }
                }
                best
            }
            Policy::Starve { victim } => {
                let others: Vec<usize> = active.iter().copied().filter(|&t| t != victim).collect();
                if others.is_empty() {
                    victim
                } else if others.contains(&cur) && self.rng.chance(1, 2) {
                    cur
                } else {
                    *self.rng.pick(&others)
                }
            }
        }
    }
}

// ------------------------------------------------------------------------------------------------
// happens-before monitor (C11 release/acquire rules, computed from the orderings the code used)

type Vc = [u32; MAXT];

fn join(a: &mut Vc, b: &Vc) {
    for i in 0..MAXT {
        if b[i] > a[i] {
            a[i] = b[i];
        }
    }
}

pub struct Hb {
    n: usize,
    vc: [Vc; MAXT],
    /// clock published by the release sequence currently heading each location
    loc: HashMap<usize, Vc>,
    pending_acq: [Vc; MAXT],
    fence_rel: [Option<Vc>; MAXT],
    last_access: Option<(usize, u32)>,
    /// epoch of the latest read access of each thread since the last write access (0 = none)
    last_reads: [u32; MAXT],
    rep: HbReport,
}

impl Hb {
    fn new(n: usize) -> Hb {
        let mut vc = [[0u32; MAXT]; MAXT];
        for (t, v) in vc.iter_mut().enumerate() {
            v[t] = 1;
        }
        Hb { n, vc, loc: HashMap::new(), pending_acq: [[0; MAXT]; MAXT], fence_rel: [None; MAXT], last_access: None, last_reads: [0; MAXT], rep: HbReport::default() }
    }
    fn tick(&mut self, t: usize) {
        self.vc[t][t] += 1;
    }
    fn load(&mut self, t: usize, addr: usize, acq: bool) {
        if let Some(l) = self.loc.get(&addr) {
            let l = *l;
            if acq {
                join(&mut self.vc[t], &l);
            } else {
                join(&mut self.pending_acq[t], &l);
            }
        }
        self.tick(t);
    }
    fn store(&mut self, t: usize, addr: usize, rel: bool) {
        if rel {
            self.loc.insert(addr, self.vc[t]);
        } else if let Some(f) = self.fence_rel[t] {
            self.loc.insert(addr, f);
        } else {
            // a relaxed store heads a new (empty) release sequence
            self.loc.remove(&addr);
        }
        self.tick(t);
    }
    fn rmw(&mut self, t: usize, addr: usize, acq: bool, rel: bool) {
        let old = self.loc.get(&addr).copied();
        if let Some(l) = old {
            if acq {
                join(&mut self.vc[t], &l);
            } else {
                join(&mut self.pending_acq[t], &l);
            }
        }
        // an RMW continues the release sequence it reads from and adds its own release, if any
        let mut newl = old.unwrap_or([0; MAXT]);
        if rel {
            let v = self.vc[t];
            join(&mut newl, &v);
        } else if let Some(f) = self.fence_rel[t] {
            join(&mut newl, &f);
        }
        self.loc.insert(addr, newl);
        self.tick(t);
    }
    fn fence(&mut self, t: usize, acq: bool, rel: bool) {
        if acq {
            let p = self.pending_acq[t];
            join(&mut self.vc[t], &p);
        }
        if rel {
            self.fence_rel[t] = Some(self.vc[t]);
        }
        self.tick(t);
    }
    /// non-atomic (write) access to the wrapped iterator
    fn access(&mut self, t: usize) {
        self.rep.accesses += 1;
        if let Some((a, c)) = self.last_access {
            if a != t {
                self.rep.handoffs += 1;
                if !self.rep.shapes.contains(&(a, t)) {
                    self.rep.shapes.push((a, t));
                }
                if self.vc[t][a] < c {
                    self.rep.unordered += 1;
                    if self.rep.first_unordered.is_empty() {
                        self.rep.first_unordered = format!(
                            "access #{} by thread {} is not ordered after the previous access by thread {} (epoch {}, thread {} knows {} of it)",
                            self.rep.accesses, t, a, c, t, self.vc[t][a]
                        );
                    }
                }
            }
        }
        // a write must also be ordered after every earlier read by another thread
        for a in 0..self.n {
            let c = self.last_reads[a];
            if a != t && c > 0 && self.vc[t][a] < c {
                self.rep.unordered += 1;
                if self.rep.first_unordered.is_empty() {
                    self.rep.first_unordered = format!("access #{} (next) by thread {} is not ordered after an earlier read access (size_hint) by thread {}", self.rep.accesses, t, a);
                }
            }
            self.last_reads[a] = 0;
        }
        self.last_access = Some((t, self.vc[t][t]));
        self.tick(t);
    }
    /// non-atomic read access to the wrapped iterator (size_hint)
    fn read_access(&mut self, t: usize) {
        self.rep.accesses += 1;
        if let Some((a, c)) = self.last_access {
            if a != t {
                self.rep.handoffs += 1;
                if self.vc[t][a] < c {
                    self.rep.unordered += 1;
                    if self.rep.first_unordered.is_empty() {
                        self.rep.first_unordered = format!("read access #{} (size_hint) by thread {} is not ordered after the previous next() by thread {}", self.rep.accesses, t, a);
                    }
                }
            }
        }
        self.last_reads[t] = self.vc[t][t];
        self.tick(t);
    }
    fn report(&self) -> HbReport {
        self.rep.clone()
    }
}
