//! Further engines: grid (C16), transcript (C17), leak (C15), multi (C19), lockstep (C13),
//! lowlevel (C14 run-time half).

use crate::alloc;
use crate::drive::*;
use crate::elem::*;
use crate::kinds::{self, with_kind, DriveVisitor, Visitor};
use crate::ops::*;
use crate::probe::{Hint, PROBE};
use crate::rules::{self, Hist, Violation};
use crate::util::*;
use crate::{make_case, run_args};
use orx_concurrent_iter::iter::atomic_iter::AtomicIter;
use orx_concurrent_iter::*;
use std::collections::{BTreeMap, HashSet};
use std::io::Write;
use std::panic::{catch_unwind, AssertUnwindSafe};
use std::sync::atomic::Ordering::Relaxed;

fn only_case(o: &u64) -> u64 {
    *o
}

fn emit(j: J) {
    println!("{}", j.render());
    let _ = std::io::stdout().flush();
}

fn violation_json(rule: &str, props: &[&str], detail: &str, case: J, replay: Vec<String>) -> J {
    J::obj()
        .set("t", J::s("violation"))
        .set("rule", J::s(rule))
        .set("props", J::A(props.iter().map(|p| J::s(p)).collect()))
        .set("detail", J::s(detail))
        .set("case", case)
        .set("replay_args", J::A(replay.iter().map(|s| J::s(s)).collect()))
}

// =================================================================================================
// transcript (C17): canonical, address-free rendering of seeded histories, one line per record
// =================================================================================================

pub fn cmd_transcript(a: &Args) -> i32 {
    let ra = run_args(a);
    if a.flag("boxed") {
        BOXED.store(true, Relaxed);
    }
    let execs = a.u64("execs", 100);
    let start = a.u64("start", 0);
    let shard = a.u64("shard", 0);
    let nshards = a.u64("nshards", 1);
    let out = std::io::stdout();
    for e in start..execs {
        if e % nshards != shard {
            continue;
        }
        let c = make_case(&ra, e);
        {
            let mut o = out.lock();
            let _ = writeln!(o, "CASE {} kind={} len={} threads={} finish={:?}", e, c.kind, c.len, c.cfg.scripts.len(), c.cfg.finish);
            let _ = o.flush();
        }
        alloc::ENABLED.store(true, Relaxed);
        let before = alloc::snapshot();
        let (res, info) = kinds::run_kind(&c.kind, c.len, c.salt, c.hint, &c.cfg);
        let mut lines: Vec<String> = res.recs.iter().map(|r| r.render().render()).collect();
        let mut rules: Vec<&str> = res.violations.iter().map(|v| v.rule).collect();
        rules.sort();
        lines.push(format!("FIN remainder={:?} complete={} rules={:?} torn={}", res.remainder_ids, res.remainder_complete, rules, res.torn));
        if info.consuming {
            let d: Vec<u32> = (0..info.len.min(MAX_IDS)).map(|i| DROPPED[i].load(Relaxed)).collect();
            lines.push(format!("LEDGER dropped={:?}", d));
        }
        drop(res);
        let after = alloc::snapshot();
        alloc::ENABLED.store(false, Relaxed);
        let mut o = out.lock();
        for l in lines {
            let _ = writeln!(o, "{}", l);
        }
        let _ = writeln!(o, "ALLOC live_bytes_delta={} live_blocks_delta={}", after.0 - before.0, after.1 - before.1);
        let _ = writeln!(o, "ENDCASE {}", e);
        let _ = o.flush();
    }
    println!("DONE");
    0
}

// =================================================================================================
// lockstep (C13): the same sequential script on a reference-yielding iterator and on its adaptor
// =================================================================================================

const PAIRS: [(&str, &str); 5] = [("slice", "cloned_slice"), ("vec_ref", "cloned_vec_ref"), ("iter_ref", "cloned_iter"), ("slice", "copied_slice"), ("iter_ref", "copied_iter")];

fn canon(r: &Rec) -> String {
    // thread, op, result with indices / positions / lengths; no addresses, no clone flags
    r.render().render()
}

pub fn cmd_lockstep(a: &Args) -> i32 {
    let mut ra = run_args(a);
    ra.mode = Mode::Seq;
    let execs = a.u64("execs", 200);
    let shard = a.u64("shard", 0);
    let nshards = a.u64("nshards", 1);
    let only = a.get("only").map(|s| s.split(':').next().unwrap().parse::<u64>().unwrap());
    let t0 = std::time::Instant::now();
    let mut cases = 0u64;
    let mut nontrivial: HashSet<u64> = HashSet::new();
    let mut violations = 0u64;
    let mut per_pair: BTreeMap<String, u64> = BTreeMap::new();
    let mut compared_records = 0u64;
    let mut samples = Vec::new();
    // a replayed case (--only) is executed whatever --execs / --shard say
    let (mut e, execs) = match only {
        Some(o) => (only_case(&o), only_case(&o) + 1),
        None => (shard, execs),
    };
    while e < execs {
        if only.map(|o| o != e).unwrap_or(false) {
            e += nshards;
            continue;
        }
        let (base, adaptor) = PAIRS[(e as usize) % PAIRS.len()];
        ra.kinds = vec![base.to_string()];
        let c = make_case(&ra, e);
        let (ob, _ib) = kinds::run_kind(base, c.len, c.salt, c.hint, &c.cfg);
        let (oa, _ia) = kinds::run_kind(adaptor, c.len, c.salt, c.hint, &c.cfg);
        cases += 1;
        *per_pair.entry(format!("{}~{}", base, adaptor)).or_default() += 1;
        let mut problems: Vec<(&'static str, String)> = Vec::new();
        // the adaptor on its own must satisfy every rule (clone ledger, aliasing, source intact)
        for v in oa.violations.iter() {
            problems.push((v.rule, format!("adaptor run: {}", v.detail)));
        }
        // a base-run violation that the adaptor run does not share is a base problem, not C13
        if ob.recs.len() != oa.recs.len() {
            problems.push(("LOCKSTEP", format!("{} produced {} records, {} produced {}", base, ob.recs.len(), adaptor, oa.recs.len())));
        }
        for (k, (rb, rad)) in ob.recs.iter().zip(oa.recs.iter()).enumerate() {
            compared_records += 1;
            let (x, y) = (canon(rb), canon(rad));
            if x != y {
                problems.push(("LOCKSTEP", format!("operation #{} differs: {} gave {} but {} gave {}", k, base, x, adaptor, y)));
                break;
            }
        }
        if ob.remainder_ids != oa.remainder_ids || ob.remainder_complete != oa.remainder_complete {
            problems.push(("LOCKSTEP", format!("into_seq_iter differs: {} gave positions {:?}, {} gave {:?}", base, ob.remainder_ids, adaptor, oa.remainder_ids)));
        }
        if ob.recs.len() >= 3 {
            nontrivial.insert(c.hash ^ mix(e % PAIRS.len() as u64, 99));
        }
        if samples.len() < 2 && ob.recs.len() >= 4 && problems.is_empty() {
            samples.push(
                J::obj()
                    .set("pair", J::S(format!("{}~{}", base, adaptor)))
                    .set("len", J::u(c.len))
                    .set("script", J::A(c.cfg.scripts.iter().map(|s| s.render()).collect()))
                    .set("finish", J::S(format!("{:?}", c.cfg.finish)))
                    .set("records_equal", J::u(ob.recs.len()))
                    .set("first_records", J::A(oa.recs.iter().take(12).map(|r| r.render()).collect())),
            );
        }
        let mut seen = HashSet::new();
        for (rule, detail) in problems {
            if !seen.insert(rule) {
                continue;
            }
            violations += 1;
            let props: &[&str] = if rule == "LOCKSTEP" { &["C13"] } else { oa.violations.iter().find(|v| v.rule == rule).map(|v| v.props).unwrap_or(&["C13"]) };
            let mut all: Vec<&str> = props.to_vec();
            if !all.contains(&"C13") {
                all.push("C13");
            }
            let case = J::obj().set("case", J::S(format!("{}:0", e))).set("pair", J::S(format!("{}~{}", base, adaptor))).set("len", J::u(c.len)).set("scripts", J::A(c.cfg.scripts.iter().map(|s| s.render()).collect())).set("finish", J::S(format!("{:?}", c.cfg.finish)));
            let mut replay = vec!["lockstep".to_string()];
            for (k, v) in &a.kv {
                if !["only", "execs", "shard", "nshards"].contains(&k.as_str()) {
                    replay.push(format!("--{}={}", k, v));
                }
            }
            replay.push(format!("--only={}", e));
            let mut j = violation_json(rule, &all, &detail, case, replay);
            j.put("kind", J::s(adaptor));
            j.put("len", J::u(c.len));
            emit(j);
        }
        e += nshards;
    }
    write_hashes(a.get("hash-out"), nontrivial.iter());
    emit(J::obj()
        .set("t", J::s("summary"))
        .set("engine", J::s("lockstep"))
        .set("cases", J::u64(cases))
        .set("distinct_nontrivial", J::u(nontrivial.len()))
        .set("compared_records", J::u64(compared_records))
        .set("per_kind", J::from_map(&per_pair))
        .set("violations", J::u64(violations))
        .set("samples", J::A(samples))
        .set("wall_s", J::F(t0.elapsed().as_secs_f64())));
    (violations > 0) as i32
}

// =================================================================================================
// multi (C19): several iterators and clones over one collection, interleaved on one thread or
// driven by disjoint thread groups
// =================================================================================================

struct MultiIt<'a, C> {
    it: C,
    ctx: Ctx<'a>,
    info: SrcInfo,
}

fn cursor_of(recs: &[Rec], info: &SrcInfo) -> usize {
    // positions this iterator has handed out so far (sequential history)
    let mut end = info.start_pos;
    let mut ended = false;
    for r in recs {
        match &r.res {
            Res::Items { announced, items, begin, .. } => {
                let (s, l) = if *announced != usize::MAX { (items.first().map(|i| (i.id as usize).wrapping_sub(i.idx.wrapping_sub(*begin))).unwrap_or(*begin), *announced) } else { (items[0].id as usize, 1) };
                end = end.max(s + l);
            }
            Res::Opaque { .. } | Res::End | Res::Skip => ended = true,
            _ => {}
        }
    }
    if ended {
        info.len
    } else {
        end.min(info.len)
    }
}

fn multi_generic<C: ConcurrentIter + Clone>(first: C, base: &SrcInfo, rng: &mut Rng, p: &Profile, steps: usize) -> (Vec<Violation>, usize, usize, Vec<J>)
where
    C::Item: Elem,
{
    let infos: Vec<SrcInfo> = Vec::new();
    let _ = infos;
    let mut its: Vec<MultiIt<C>> = Vec::new();
    // SrcInfo values must outlive the contexts: leak-free trick: allocate all infos up front
    let mut info_store: Vec<Box<SrcInfo>> = Vec::new();
    info_store.push(Box::new(base.clone()));
    let info0: &SrcInfo = unsafe { &*(info_store[0].as_ref() as *const SrcInfo) };
    its.push(MultiIt { it: first, ctx: Ctx::new(0, info0), info: base.clone() });
    let mut trace: Vec<J> = Vec::new();
    let mut clones = 0;
    for _ in 0..steps {
        let k = rng.below(its.len());
        if its.len() < 4 && rng.chance(1, 6) {
            // clone iterator k at its current position
            let cur = cursor_of(&its[k].ctx.recs, &its[k].info);
            let mut ninfo = base.clone();
            ninfo.start_pos = cur;
            info_store.push(Box::new(ninfo.clone()));
            let iref: &SrcInfo = unsafe { &*(info_store.last().unwrap().as_ref() as *const SrcInfo) };
            let c = its[k].it.clone();
            trace.push(J::S(format!("it{} = it{}.clone() at cursor {}", its.len(), k, cur)));
            its.push(MultiIt { it: c, ctx: Ctx::new(its.len(), iref), info: ninfo });
            clones += 1;
            continue;
        }
        let op = gen_op(rng, p, base.len, false, false);
        trace.push(J::S(format!("it{}.{}", k, op.render())));
        let m = &mut its[k];
        let _ = catch_unwind(AssertUnwindSafe(|| exec_op(&m.it, &op, &mut m.ctx)));
    }
    let mut viol = Vec::new();
    let n_its = its.len();
    for m in its {
        let MultiIt { it, ctx, info } = m;
        // remainder of every iterator: exactly its own undelivered suffix
        let rem: Vec<Ident> = it.into_seq_iter().map(|x| x.ident(&info)).collect();
        let h = Hist { info: &info, recs: &ctx.recs, nthreads: 4, realtime: true, remainder: Some(&rem), remainder_complete: true, torn: false, injected: false, drain_overrun: false, finish_panic: None, sched: None, frozen: false, seq_stuck: false };
        let (v, _) = rules::check(&h);
        for mut x in v {
            x.detail = format!("iterator #{} (start position {}): {}", ctx.tid, info.start_pos, x.detail);
            viol.push(x);
        }
    }
    drop(info_store);
    (viol, n_its, clones, trace)
}

fn clone_it<C: Clone>(c: &C) -> C {
    c.clone()
}

/// two iterators over the same collection, each driven by its own group of free-running threads
fn multi_concurrent<C: ConcurrentIter>(mk: impl Fn() -> C, cloner: Option<fn(&C) -> C>, base: &SrcInfo, rng: &mut Rng, p: &Profile) -> (Vec<Violation>, Vec<J>)
where
    C::Item: Elem,
{
    let its = [mk(), mk()];
    let scripts: Vec<Script> = (0..4).map(|_| gen_script(rng, p, base.len, false)).collect();
    crate::sched::RACE_MODE.store(false, Relaxed);
    crate::sched::CLOCK.store(1, std::sync::atomic::Ordering::SeqCst);
    let gate = std::sync::atomic::AtomicUsize::new(0);
    let clone_log: std::sync::Mutex<Vec<(usize, Vec<u64>)>> = std::sync::Mutex::new(Vec::new());
    let logs: Vec<Vec<Rec>> = std::thread::scope(|s| {
        if let Some(cl) = cloner {
            // a fifth thread clones iterator 0 again and again while its two threads pull from it
            let it0 = &its[0];
            let gate = &gate;
            let clone_log = &clone_log;
            s.spawn(move || {
                while gate.load(Relaxed) < 4 {
                    std::thread::yield_now();
                }
                for _ in 0..3 {
                    let c = cl(it0);
                    let first = c.next_id_and_value().map(|x| x.idx);
                    let ids: Vec<u64> = c.into_seq_iter().map(|x| x.ident(base).id).collect();
                    clone_log.lock().unwrap().push((first.unwrap_or(usize::MAX), ids));
                    std::thread::yield_now();
                }
            });
        }
        let hs: Vec<_> = (0..4usize)
            .map(|t| {
                let it = &its[t / 2];
                let script = &scripts[t];
                let gate = &gate;
                s.spawn(move || {
                    let mut ctx = Ctx::new(t, base);
                    gate.fetch_add(1, Relaxed);
                    while gate.load(Relaxed) < 4 {
                        std::thread::yield_now();
                    }
                    let _ = run_script(it, script, &mut ctx);
                    ctx.recs
                })
            })
            .collect();
        hs.into_iter().map(|h| h.join().expect("worker")).collect()
    });
    let mut viol = Vec::new();
    // every clone is a consistent cursor of its own: its first pull and its remainder are consecutive
    for (first, ids) in clone_log.lock().unwrap().iter() {
        let mut expect = if *first == usize::MAX { None } else { Some(*first as u64 + 1) };
        for id in ids {
            if let Some(e) = expect {
                if *id != e {
                    viol.push(Violation { rule: "CLONE-CURSOR", props: &["C19"], detail: format!("a clone taken while other threads pull from the original delivered position {} where {} was expected", id, e) });
                    break;
                }
            }
            expect = Some(id + 1);
        }
        if let Some(e) = expect {
            if e != base.len as u64 && !(ids.is_empty() && *first == usize::MAX) {
                viol.push(Violation { rule: "CLONE-CURSOR", props: &["C19"], detail: format!("a clone's remainder ends at position {} of {}", e, base.len) });
            }
        }
    }
    let [a, b] = its;
    for (k, it) in [a, b].into_iter().enumerate() {
        let mut recs: Vec<Rec> = logs[2 * k].iter().chain(logs[2 * k + 1].iter()).cloned().collect();
        recs.sort_by_key(|r| (r.t0, r.thread));
        let rem: Vec<Ident> = it.into_seq_iter().map(|x| x.ident(base)).collect();
        let h = Hist { info: base, recs: &recs, nthreads: 4, realtime: true, remainder: Some(&rem), remainder_complete: true, torn: false, injected: false, drain_overrun: false, finish_panic: None, sched: None, frozen: false, seq_stuck: false };
        let (v, _) = rules::check(&h);
        for mut x in v {
            x.detail = format!("iterator #{} of two over the same collection, each pulled by its own two threads: {}", k, x.detail);
            viol.push(x);
        }
    }
    let trace = scripts.iter().enumerate().map(|(t, s)| J::obj().set("thread", J::u(t)).set("iterator", J::u(t / 2)).set("script", s.render())).collect();
    (viol, trace)
}

pub fn cmd_multi(a: &Args) -> i32 {
    let seed = a.u64("seed", 1);
    let execs = a.u64("execs", 200);
    let shard = a.u64("shard", 0);
    let nshards = a.u64("nshards", 1);
    let only = a.get("only").map(|s| s.split(':').next().unwrap().parse::<u64>().unwrap());
    let p = profile(&a.str("profile", "len"));
    let t0 = std::time::Instant::now();
    let mut cases = 0u64;
    let mut violations = 0u64;
    let mut nontrivial = HashSet::new();
    let mut total_clones = 0usize;
    let mut total_its = 0usize;
    let mut per_kind: BTreeMap<String, u64> = BTreeMap::new();
    let mut samples = Vec::new();
    let kinds_ = ["slice", "vec_ref", "array_ref", "range", "range_into"];
    // a replayed case (--only) is executed whatever --execs / --shard say
    let (mut e, execs) = match only {
        Some(o) => (only_case(&o), only_case(&o) + 1),
        None => (shard, execs),
    };
    while e < execs {
        if only.map(|o| o != e).unwrap_or(false) {
            e += nshards;
            continue;
        }
        let mut rng = Rng::new(mix(seed ^ 0xC19, e));
        let kind = kinds_[(e as usize) % kinds_.len()];
        let len = *rng.pick(&[0usize, 1, 2, 3, 5, 8, 13, 33]);
        let salt = rng.next_u64();
        let steps = rng.range(4, 30);
        ledger_reset(len + 8, salt);
        let mut info = SrcInfo { kind: "slice", len, base_addr: 0, stride: 0, range_start: 0, salt, consuming: false, adaptor: false, wrapped: false, exact_len: true, start_pos: 0, non_fused: false };
        let mut viol;
        let (n_its, clones, trace);
        let concurrent = e % 4 == 3;
        let pp = profile("pulls");
        match kind {
            _ if concurrent && kind.starts_with("range") => {
                info.kind = "range";
                info.range_start = (salt % 1000) as usize;
                let r = info.range_start..info.range_start + len;
                let out = multi_concurrent(|| r.con_iter(), Some(clone_it), &info, &mut rng, &pp);
                viol = out.0;
                n_its = 2;
                clones = 0;
                trace = out.1;
            }
            _ if concurrent => {
                let src = crate::probe::mk_tk_vec(len, salt);
                info.base_addr = src.as_ptr() as usize;
                info.stride = std::mem::size_of::<Tk>();
                let out = if kind == "vec_ref" { multi_concurrent(|| src.con_iter(), Some(clone_it), &info, &mut rng, &pp) } else { multi_concurrent(|| src.as_slice().into_con_iter(), Some(clone_it), &info, &mut rng, &pp) };
                viol = out.0;
                n_its = 2;
                clones = 0;
                trace = out.1;
                let mut bad = src.len() != len || src.as_ptr() as usize != info.base_addr;
                for (i, x) in src.iter().enumerate() {
                    bad |= x.id as usize != i || x.pay != pay_of(i as u64, salt) || x.gen != 0 || DROPPED[i].load(Relaxed) != 0 || CLONED[i].load(Relaxed) != 0;
                }
                if bad {
                    viol.push(Violation { rule: "SRC-MODIFIED", props: &["C19"], detail: "collection modified, moved, cloned or dropped by concurrent non-consuming iteration".into() });
                }
            }
            "range" | "range_into" => {
                info.kind = "range";
                info.range_start = (salt % 1000) as usize;
                let r = info.range_start..info.range_start + len;
                let before = r.clone();
                let out = if kind == "range" { multi_generic(r.con_iter(), &info, &mut rng, &p, steps) } else { multi_generic(IntoConcurrentIter::into_con_iter(r.clone()), &info, &mut rng, &p, steps) };
                viol = out.0;
                n_its = out.1;
                clones = out.2;
                trace = out.3;
                if before != r {
                    viol.push(Violation { rule: "SRC-MODIFIED", props: &["C19"], detail: "range changed by con_iter()".into() });
                }
            }
            _ => {
                let src = crate::probe::mk_tk_vec(len, salt);
                info.base_addr = src.as_ptr() as usize;
                info.stride = std::mem::size_of::<Tk>();
                let cap = src.capacity();
                let out = match kind {
                    "slice" => multi_generic(src.as_slice().into_con_iter(), &info, &mut rng, &p, steps),
                    "vec_ref" => multi_generic(src.con_iter(), &info, &mut rng, &p, steps),
                    _ => multi_generic(src.as_slice().con_iter(), &info, &mut rng, &p, steps),
                };
                viol = out.0;
                n_its = out.1;
                clones = out.2;
                trace = out.3;
                // the collection is intact and fully usable afterwards
                let mut bad = src.len() != len || src.capacity() != cap || src.as_ptr() as usize != info.base_addr;
                for (i, x) in src.iter().enumerate() {
                    bad |= x.id as usize != i || x.pay != pay_of(i as u64, salt) || x.gen != 0;
                }
                for i in 0..len {
                    bad |= DROPPED[i].load(Relaxed) != 0 || CLONED[i].load(Relaxed) != 0;
                }
                if bad {
                    viol.push(Violation { rule: "SRC-MODIFIED", props: &["C19"], detail: "collection modified, moved, cloned or dropped by non-consuming iteration".into() });
                }
                let n: usize = src.iter().map(|x| x.id as usize).sum();
                if n != len * len.saturating_sub(1) / 2 {
                    viol.push(Violation { rule: "SRC-MODIFIED", props: &["C19"], detail: "collection content changed".into() });
                }
            }
        }
        cases += 1;
        total_its += n_its;
        total_clones += clones;
        *per_kind.entry(kind.to_string()).or_default() += 1;
        if n_its >= 2 {
            let mut h = Fnv::new();
            h.add_str(kind);
            h.add_str(&J::A(trace.clone()).render());
            nontrivial.insert(h.0);
        }
        if samples.len() < 2 && n_its >= 2 && viol.is_empty() {
            samples.push(J::obj().set("kind", J::s(kind)).set("len", J::u(len)).set("iterators", J::u(n_its)).set("steps", J::A(trace.clone())));
        }
        let mut seen = HashSet::new();
        for x in viol {
            if !seen.insert(x.rule) {
                continue;
            }
            violations += 1;
            let mut props = x.props.to_vec();
            if !props.contains(&"C19") {
                props.push("C19");
            }
            let case = J::obj().set("case", J::S(format!("{}:0", e))).set("kind", J::s(kind)).set("len", J::u(len)).set("steps", J::A(trace.clone()));
            let mut replay = vec!["multi".to_string()];
            for (k, v) in &a.kv {
                if !["only", "execs", "shard", "nshards"].contains(&k.as_str()) {
                    replay.push(format!("--{}={}", k, v));
                }
            }
            replay.push(format!("--only={}", e));
            let mut j = violation_json(x.rule, &props, &x.detail, case, replay);
            j.put("kind", J::s(kind));
            j.put("len", J::u(len));
            emit(j);
        }
        e += nshards;
    }
    write_hashes(a.get("hash-out"), nontrivial.iter());
    emit(J::obj()
        .set("t", J::s("summary"))
        .set("engine", J::s("multi"))
        .set("cases", J::u64(cases))
        .set("distinct_nontrivial", J::u(nontrivial.len()))
        .set("iterators", J::u(total_its))
        .set("clones", J::u(total_clones))
        .set("per_kind", J::from_map(&per_kind))
        .set("violations", J::u64(violations))
        .set("samples", J::A(samples))
        .set("wall_s", J::F(t0.elapsed().as_secs_f64())));
    (violations > 0) as i32
}

// =================================================================================================
// grid (C16): boundary arithmetic, complete enumeration of the stated grid
// =================================================================================================

const M: usize = usize::MAX;

#[derive(Clone, Copy, Debug)]
struct GridCase {
    /// 0 no prefix, 1 one position, 2 len-1 positions, 3 len positions taken before
    prefix: u8,
    n: usize,
    buffered: bool,
    /// 0 next x3, 1 chunk(2), 2 len+has_more, 3 skip;next;len, 4 into_seq_iter, 5 chunk(MAX) again, 6 for_each(1) twice then fold(2)
    cont: u8,
}

struct GridVisitor {
    gc: GridCase,
}

/// model of the cursor in u128: no wrap-around possible
struct Model {
    len: u128,
    cur: u128,
}

impl Model {
    fn rem(&self) -> u128 {
        self.len.saturating_sub(self.cur.min(self.len))
    }
}

fn first_vals<T: Elem, I: ExactSizeIterator<Item = T>>(mut vals: I, info: &SrcInfo, begin: u128, count: u128, what: &str) -> Result<(), String> {
    if vals.len() as u128 != count {
        return Err(format!("{what}: chunk announces {} items, expected {}", vals.len(), count));
    }
    let take = count.min(3) as usize;
    for k in 0..take {
        match vals.next() {
            None => return Err(format!("{what}: chunk ended after {k} items, expected {count}")),
            Some(x) => {
                let id = x.ident(info);
                if id.id as u128 != begin + k as u128 || !id.sane {
                    return Err(format!("{what}: item #{k} decodes to position {} but position {} was expected", id.id, begin + k as u128));
                }
            }
        }
    }
    if vals.len() as u128 != count - take as u128 {
        return Err(format!("{what}: after {take} items len() is {}, expected {}", vals.len(), count - take as u128));
    }
    if count <= 8 {
        let rest = vals.count() as u128;
        if rest != count - take as u128 {
            return Err(format!("{what}: chunk yielded {} items in total, expected {}", rest + take as u128, count));
        }
    }
    Ok(())
}

fn expect_next<C: ConcurrentIter>(it: &C, m: &mut Model, info: &SrcInfo, what: &str) -> Result<(), String>
where
    C::Item: Elem,
{
    let r = it.next_id_and_value();
    let exp = if m.cur < m.len { Some(m.cur) } else { None };
    m.cur += 1;
    match (r, exp) {
        (None, None) => Ok(()),
        (Some(x), Some(p)) => {
            let id = x.value.ident(info);
            if x.idx as u128 != p || id.id as u128 != p || !id.sane {
                Err(format!("{what}: next returned index {} / position {} but position {} was expected", x.idx, id.id, p))
            } else {
                Ok(())
            }
        }
        (Some(x), None) => Err(format!("{what}: next returned an element (index {}, position {}) although the iterator is exhausted", x.idx, x.value.ident(info).id)),
        (None, Some(p)) => Err(format!("{what}: next reported the end although position {} is undelivered", p)),
    }
}

fn expect_chunk<C: ConcurrentIter>(it: &C, n: usize, m: &mut Model, info: &SrcInfo, what: &str) -> Result<(), String>
where
    C::Item: Elem,
{
    let r = it.next_chunk(n);
    if n == 0 {
        return match r {
            None => Ok(()),
            Some(c) => Err(format!("{what}: next_chunk(0) returned a chunk (begin {}, len {})", c.begin_idx, c.values.len())),
        };
    }
    let exp = if m.cur < m.len { Some((m.cur, (n as u128).min(m.len - m.cur))) } else { None };
    m.cur += n as u128;
    match (r, exp) {
        (None, None) => Ok(()),
        (Some(c), Some((b, cnt))) => {
            if c.begin_idx as u128 != b {
                return Err(format!("{what}: chunk begins at index {} but {} was expected", c.begin_idx, b));
            }
            first_vals(c.values, info, b, cnt, what)
        }
        (Some(c), None) => Err(format!("{what}: next_chunk({n}) returned a chunk (begin {}, len {}) although the iterator is exhausted", c.begin_idx, c.values.len())),
        (None, Some((b, cnt))) => Err(format!("{what}: next_chunk({n}) reported the end although positions {}..{} are undelivered", b, b + cnt)),
    }
}

fn expect_len<C: ConcurrentIter>(it: &C, m: &Model, info: &SrcInfo, what: &str) -> Result<(), String> {
    let l = it.try_get_len();
    let hm = it.has_more();
    if info.exact_len {
        if l.map(|x| x as u128) != Some(m.rem()) {
            return Err(format!("{what}: try_get_len is {:?}, expected Some({})", l, m.rem()));
        }
        let ok = match hm {
            HasMore::No => m.rem() == 0,
            HasMore::Yes(n) => n as u128 == m.rem() && n > 0,
            HasMore::Maybe => false,
        };
        if !ok {
            return Err(format!("{what}: has_more is {:?} with {} elements remaining", hm, m.rem()));
        }
    } else if let Some(x) = l {
        if x != 0 || m.rem() != 0 && m.cur < m.len {
            // unknown size answers Some(0) only once completed
            if x != 0 {
                return Err(format!("{what}: try_get_len of an unknown-size source is Some({x})"));
            }
        }
    }
    Ok(())
}

impl Visitor for GridVisitor {
    type Out = Result<(), String>;
    fn visit<C: ConcurrentIter>(self, it: C, info: &SrcInfo) -> Result<(), String>
    where
        C::Item: Elem,
    {
        let gc = self.gc;
        let mut m = Model { len: info.len as u128, cur: 0 };
        // ---- prefix state
        let p: u128 = match gc.prefix {
            0 => 0,
            1 => 1,
            2 => m.len.saturating_sub(1),
            _ => m.len,
        };
        if p > 0 {
            if m.len <= 16 {
                for _ in 0..p {
                    expect_next(&it, &mut m, info, "prefix")?;
                }
            } else {
                expect_chunk(&it, p as usize, &mut m, info, "prefix chunk")?;
            }
        }
        // ---- the pull under test
        if gc.buffered {
            if gc.n == 0 {
                let r = catch_unwind(AssertUnwindSafe(|| {
                    let _b = it.buffered_iter(0);
                }));
                if r.is_ok() {
                    return Err("buffered_iter(0) did not panic as documented".into());
                }
            } else {
                let mut b = it.buffered_iter(gc.n);
                for round in 0..2 {
                    let r = b.next();
                    let exp = if m.cur < m.len { Some((m.cur, (gc.n as u128).min(m.len - m.cur))) } else { None };
                    m.cur += gc.n as u128;
                    match (r, exp) {
                        (None, None) => {}
                        (Some(c), Some((bg, cnt))) => {
                            if c.begin_idx as u128 != bg {
                                return Err(format!("buffered pull #{round}: chunk begins at index {} but {} was expected", c.begin_idx, bg));
                            }
                            first_vals(c.values, info, bg, cnt, "buffered pull")?;
                        }
                        (Some(c), None) => return Err(format!("buffered pull #{round} of size {} returned a chunk (begin {}, len {}) although the iterator is exhausted", gc.n, c.begin_idx, c.values.len())),
                        (None, Some((bg, cnt))) => return Err(format!("buffered pull #{round} of size {} reported the end although positions {}..{} are undelivered", gc.n, bg, bg + cnt)),
                    }
                }
            }
        } else {
            let before = (it.try_get_len(), it.has_more());
            expect_chunk(&it, gc.n, &mut m, info, "one-shot chunk")?;
            if gc.n == 0 {
                let after = (it.try_get_len(), it.has_more());
                if before != after {
                    return Err(format!("next_chunk(0) changed the iterator: try_get_len/has_more {:?} -> {:?}", before, after));
                }
            }
        }
        // ---- continuation
        match gc.cont {
            0 => {
                for _ in 0..3 {
                    expect_next(&it, &mut m, info, "continuation next")?;
                }
            }
            1 => {
                expect_chunk(&it, 2, &mut m, info, "continuation chunk(2)")?;
                expect_next(&it, &mut m, info, "continuation next")?;
            }
            2 => {
                expect_len(&it, &m, info, "continuation")?;
                expect_next(&it, &mut m, info, "continuation next")?;
                expect_len(&it, &m, info, "continuation after next")?;
            }
            3 => {
                it.skip_to_end();
                if it.next().is_some() {
                    return Err("a pull after skip_to_end delivered an element".into());
                }
                if it.next_chunk(3).is_some() {
                    return Err("a chunk pull after skip_to_end delivered elements".into());
                }
                if it.has_more() != HasMore::No || it.try_get_len() != Some(0) {
                    return Err(format!("after skip_to_end has_more is {:?}, try_get_len {:?}", it.has_more(), it.try_get_len()));
                }
                return Ok(());
            }
            7 => {
                // skip_to_end twice (two finder threads), also when it comes late (after the end): stays ended
                it.skip_to_end();
                it.skip_to_end();
                if it.next().is_some() {
                    return Err("a pull after skip_to_end (called twice) delivered an element".into());
                }
                if it.next_chunk(3).is_some() {
                    return Err("a chunk pull after skip_to_end (called twice) delivered elements".into());
                }
                it.skip_to_end();
                if it.next_id_and_value().is_some() || it.has_more() != HasMore::No || it.try_get_len() != Some(0) {
                    return Err(format!("after skip_to_end (called three times) has_more is {:?}, try_get_len {:?}, or a pull delivered", it.has_more(), it.try_get_len()));
                }
                return Ok(());
            }
            6 => {
                // everything that is left is visited exactly once, in order of position; a second call visits nothing
                // (sources of astronomical length are left out: if the cursor is wrong there, for_each never ends)
                if m.rem() <= 64 && m.len <= (1 << 20) {
                    let from = m.cur.min(m.len);
                    let mut seen: Vec<u128> = Vec::new();
                    it.for_each(1, |x| seen.push(x.ident(info).id as u128));
                    let expect: Vec<u128> = (from..m.len).collect();
                    if seen != expect {
                        return Err(format!("for_each(1) visited positions {:?}, expected {:?}", seen, expect));
                    }
                    m.cur = m.len.max(m.cur) + 1;
                    let mut again = 0usize;
                    it.for_each(1, |_| again += 1);
                    it.enumerate_for_each(1, |_, _| again += 1);
                    let folded = it.fold(2, 0usize, |a, _| a + 1);
                    if again != 0 || folded != 0 {
                        return Err(format!("for_each / fold on the exhausted iterator visited {} + {} elements", again, folded));
                    }
                    m.cur += 3;
                }
            }
            5 => {
                expect_chunk(&it, M, &mut m, info, "continuation chunk(MAX)")?;
                for _ in 0..3 {
                    expect_next(&it, &mut m, info, "continuation next")?;
                }
            }
            _ => {}
        }
        // ---- finally convert back: the undelivered remainder
        let from = m.cur.min(m.len);
        let mut s = it.into_seq_iter();
        let remaining = m.len - from;
        for k in 0..remaining.min(3) {
            match s.next() {
                None => return Err(format!("into_seq_iter ended after {k} items, {remaining} undelivered")),
                Some(x) => {
                    let id = x.ident(info);
                    if id.id as u128 != from + k || !id.sane {
                        return Err(format!("into_seq_iter item #{k} is position {}, expected {}", id.id, from + k));
                    }
                }
            }
        }
        if remaining <= 64 {
            let rest = s.count() as u128;
            if rest != remaining - remaining.min(3) {
                return Err(format!("into_seq_iter yielded {} items, {} undelivered", rest + remaining.min(3), remaining));
            }
        } else {
            let (lo, hi) = s.size_hint();
            if let Some(hi) = hi {
                if lo == hi && lo as u128 != remaining - 3 {
                    return Err(format!("into_seq_iter announces {} more items, {} expected", lo, remaining - 3));
                }
            }
        }
        Ok(())
    }
}

fn zero_panics_visitor_check(kind: &str, len: usize, salt: u64) -> Vec<String> {
    struct Z;
    impl Visitor for Z {
        type Out = Vec<String>;
        fn visit<C: ConcurrentIter>(self, it: C, _info: &SrcInfo) -> Vec<String>
        where
            C::Item: Elem,
        {
            let mut bad = Vec::new();
            if catch_unwind(AssertUnwindSafe(|| it.for_each(0, |_| {}))).is_ok() {
                bad.push("for_each(0) did not panic as documented".to_string());
            }
            if catch_unwind(AssertUnwindSafe(|| it.enumerate_for_each(0, |_, _| {}))).is_ok() {
                bad.push("enumerate_for_each(0) did not panic as documented".to_string());
            }
            if catch_unwind(AssertUnwindSafe(|| it.fold(0, 0usize, |a, _| a + 1))).is_ok() {
                bad.push("fold(0) did not panic as documented".to_string());
            }
            // the failed calls must not have consumed anything
            let n = it.into_seq_iter().count();
            if n != _info.len {
                bad.push(format!("calls with chunk size 0 consumed elements: {} of {} left", n, _info.len));
            }
            bad
        }
    }
    with_kind(kind, len, salt, Hint::Exact, None, Z).0
}

pub fn cmd_grid(a: &Args) -> i32 {
    let shard = a.u64("shard", 0);
    let nshards = a.u64("nshards", 1);
    let only = a.get("only").map(|s| s.split(':').next().unwrap().parse::<u64>().unwrap());
    let reduced = a.flag("reduced");
    let only_cont: Option<Vec<u64>> = a.get("only-cont").map(|s| s.split(',').map(|x| x.parse::<u64>().unwrap()).collect());
    // ranges within 8 of usize::MAX are the territory of the open finding F6b: only the C16 check looks at them
    let skip_near_max = a.flag("skip-near-max");
    if a.flag("boxed") {
        BOXED.store(true, Relaxed);
    }
    let t0 = std::time::Instant::now();
    let bounds: Vec<usize> = vec![0, 1, 7, M / 2 - 1, M / 2, M / 2 + 1, M - 7, M - 1, M];
    let mut idx = 0u64;
    let mut cases = 0u64;
    let mut violations = 0u64;
    let mut printed = 0;
    let mut nontrivial = 0u64;
    let mut per_kind: BTreeMap<String, u64> = BTreeMap::new();
    let mut samples: Vec<J> = Vec::new();
    let mut run = |kind: &str, len: usize, range: Option<(usize, usize)>, hint: Hint, gc: GridCase, idx: u64| {
        let salt = mix(idx, 0x616);
        let desc = J::obj()
            .set("case", J::S(format!("{}:0", idx)))
            .set("kind", J::s(kind))
            .set("len", match range {
                Some((x, y)) => J::S(format!("range {}..{}", x, y)),
                None => J::u(len),
            })
            .set("hint", J::s(hint.name()))
            .set("prefix", J::s(["none", "1", "len-1", "len"][gc.prefix as usize]))
            .set("chunk_size", J::S(sz(gc.n, range.map(|(x, y)| y.saturating_sub(x)).unwrap_or(len))))
            .set("style", J::s(if gc.buffered { "buffered" } else { "one-shot" }))
            .set("continuation", J::s(["next x3", "chunk(2);next", "len;next;len", "skip;next;len", "into_seq_iter", "chunk(MAX);next x3", "for_each(1) x2;enumerate_for_each(1);fold(2)", "skip x2;next;chunk;skip;len"][gc.cont as usize]));
        let res = catch_unwind(AssertUnwindSafe(|| with_kind(kind, len, salt, hint, range, GridVisitor { gc })));
        let mut problems: Vec<String> = Vec::new();
        match res {
            Err(p) => {
                let msg = if p.is::<Injected>() { "injected".to_string() } else { LAST_PANIC.with(|c| c.borrow().clone()) };
                problems.push(format!("panicked: {}", msg));
            }
            Ok((r, info, viol)) => {
                if let Err(e) = r {
                    problems.push(e);
                }
                for v in viol {
                    problems.push(v.detail);
                }
                // ledger: consumed collections dropped exactly once
                if info.consuming && info.kind != "iter_owned" {
                    for i in 0..info.len.min(64) {
                        let d = DROPPED[i].load(Relaxed);
                        if d != 1 {
                            problems.push(format!("element {} had its destructor run {} times", i, d));
                            break;
                        }
                    }
                }
                if GARBAGE_DROPS.load(Relaxed) > 0 {
                    problems.push("destructor ran on memory that is not a live element".to_string());
                }
            }
        }
        (desc, problems)
    };
    let chunk_sizes = |len: usize| -> Vec<usize> {
        let mut v = vec![0, 1, len.saturating_sub(1), len, len.saturating_add(1), M / 2, M - 7, M];
        v.dedup();
        let mut out = Vec::new();
        for x in v {
            if !out.contains(&x) {
                out.push(x);
            }
        }
        out
    };
    let mut todo: Vec<(String, usize, Option<(usize, usize)>, Hint, GridCase)> = Vec::new();
    // ranges: all bounds squared (including empty and inverted)
    for &x in &bounds {
        for &y in &bounds {
            let len = y.saturating_sub(x);
            for n in chunk_sizes(len) {
                for prefix in 0..4u8 {
                    for cont in 0..8u8 {
                        for buffered in [false, true] {
                            todo.push(("range".into(), len, Some((x, y)), Hint::Exact, GridCase { prefix, n, buffered, cont }));
                        }
                    }
                }
            }
        }
    }
    // every other kind: small lengths, same chunk sizes
    for kind in ["slice", "vec_ref", "array_ref", "vec", "array", "cloned_slice", "copied_slice", "cloned_vec_ref", "iter_owned", "iter_ref", "cloned_iter", "copied_iter", "stdvec_iter", "filter_iter"] {
        for len in [0usize, 1, 2, 5, 8] {
            for n in chunk_sizes(len) {
                for prefix in 0..4u8 {
                    for cont in 0..8u8 {
                        for buffered in [false, true] {
                            if buffered && kinds::is_wrapped(kind) && n > 4096 {
                                // documented: the wrapper over an arbitrary iterator allocates chunk_size slots
                                continue;
                            }
                            let hints: &[Hint] = if kinds::is_wrapped(kind) && kind != "stdvec_iter" && kind != "filter_iter" { &[Hint::Exact, Hint::Unbounded] } else { &[Hint::Exact] };
                            for h in hints {
                                todo.push((kind.into(), len, None, *h, GridCase { prefix, n, buffered, cont }));
                            }
                        }
                    }
                }
            }
        }
    }
    let total = todo.len();
    for (kind, len, range, hint, gc) in todo {
        let my = idx % nshards == shard && only.map(|o| o == idx).unwrap_or(true) && only_cont.as_ref().map(|c| c.contains(&(gc.cont as u64))).unwrap_or(true) && !(skip_near_max && range.map(|(x, y)| y.saturating_sub(x) >= M - 7).unwrap_or(false));
        if my && (!reduced || idx % 37 == 0) {
            let (desc, problems) = run(&kind, len, range, hint, gc, idx);
            cases += 1;
            *per_kind.entry(kind.clone()).or_default() += 1;
            if gc.n >= 1 && len > 0 {
                nontrivial += 1;
            }
            if samples.len() < 3 && cases % 1009 == 7 && problems.is_empty() {
                samples.push(desc.clone());
            }
            if !problems.is_empty() {
                violations += 1;
                if printed < a.u64("max-print", 8) {
                    printed += 1;
                    let mut replay = vec!["grid".to_string()];
                    if a.flag("boxed") {
                        replay.push("--boxed=1".into());
                    }
                    replay.push(format!("--only={}", idx));
                    let props: &[&str] = match gc.cont {
                        0 | 5 => &["C16", "C05"],
                        1 => &["C16", "C03"],
                        2 => &["C16", "C11"],
                        3 => &["C16", "C06"],
                        4 => &["C16", "C10"],
                        6 => &["C16", "C12"],
                        _ => &["C16", "C06", "C05"],
                    };
                    let mut j = violation_json("GRID", props, &problems.join("; "), desc, replay);
                    j.put("kind", J::s(&kind));
                    j.put("len", J::u(len));
                    emit(j);
                }
            }
        }
        idx += 1;
    }
    // documented panics for chunk size zero
    if shard == 0 && only.is_none() {
        for kind in ["slice", "vec", "array", "range", "iter_owned", "cloned_slice", "copied_slice"] {
            for len in [0usize, 1, 5] {
                let bad = catch_unwind(AssertUnwindSafe(|| zero_panics_visitor_check(kind, len, 5))).unwrap_or_else(|_| vec!["panic escaped".into()]);
                cases += 1;
                for b in bad {
                    violations += 1;
                    let mut j = violation_json("GRID-ZERO", &["C16"], &b, J::obj().set("case", J::s("zero")).set("kind", J::s(kind)).set("len", J::u(len)), vec!["grid".into()]);
                    j.put("kind", J::s(kind));
                    j.put("len", J::u(len));
                    emit(j);
                }
            }
        }
    }
    emit(J::obj()
        .set("t", J::s("summary"))
        .set("engine", J::s("grid"))
        .set("grid_size", J::u(total))
        .set("cases", J::u64(cases))
        .set("distinct_nontrivial", J::u64(nontrivial))
        .set("exhaustive", J::B(!reduced && only.is_none() && only_cont.is_none() && !skip_near_max))
        .set("debug_assertions", J::B(cfg!(debug_assertions)))
        .set("per_kind", J::from_map(&per_kind))
        .set("violations", J::u64(violations))
        .set("samples", J::A(samples))
        .set("wall_s", J::F(t0.elapsed().as_secs_f64())));
    (violations > 0) as i32
}

fn sz(n: usize, len: usize) -> String {
    if n == M {
        "MAX".into()
    } else if n == M / 2 {
        "MAX/2".into()
    } else if n == M - 7 {
        "MAX-7".into()
    } else if n == len && len > 8 {
        "len".into()
    } else if len > 8 && n == len - 1 {
        "len-1".into()
    } else if len > 8 && n == len.saturating_add(1) {
        "len+1".into()
    } else {
        n.to_string()
    }
}

// =================================================================================================
// leak (C15): allocation ledger around scenario windows
// =================================================================================================

struct Blob<const N: usize> {
    id: u32,
    data: [u8; N],
    heap: Option<Vec<u8>>,
}

impl<const N: usize> Blob<N> {
    fn new(id: usize, heap: bool) -> Self {
        Blob { id: id as u32, data: [id as u8; N], heap: if heap { Some(vec![id as u8; 24 + id % 7]) } else { None } }
    }
}

fn blob_scenario<const N: usize>(kind: u8, len: usize, heap: bool, pulls: usize, chunk: usize, finish: u8, threads: usize) -> u64 {
    // returns a checksum so that nothing is optimised away
    fn use_it<const N: usize, C: ConcurrentIter<Item = Blob<N>>>(it: C, pulls: usize, chunk: usize, finish: u8, threads: usize) -> u64 {
        let mut sum = 0u64;
        let work = |it: &C| -> u64 {
            let mut s = 0u64;
            for _ in 0..pulls {
                if let Some(x) = it.next() {
                    s += x.id as u64 + x.data[0] as u64 + x.heap.as_ref().map(|h| h.len() as u64).unwrap_or(0);
                }
            }
            if chunk > 0 {
                if let Some(c) = it.next_chunk(chunk) {
                    // half consumed chunk
                    let n = c.values.len();
                    for x in c.values.take(n / 2) {
                        s += x.id as u64;
                    }
                }
                let mut b = it.buffered_iter(chunk);
                if let Some(c) = b.next() {
                    for x in c.values.take(1) {
                        s += x.id as u64;
                    }
                }
                let _ = b.next();
            }
            s
        };
        if threads <= 1 {
            sum += work(&it);
        } else {
            let itr = &it;
            sum += std::thread::scope(|s| {
                let hs: Vec<_> = (0..threads).map(|_| s.spawn(move || work(itr))).collect();
                hs.into_iter().map(|h| h.join().unwrap()).sum::<u64>()
            });
        }
        match finish {
            0 => drop(it),
            1 => {
                it.skip_to_end();
                drop(it)
            }
            2 => {
                for x in it.into_seq_iter() {
                    sum += x.id as u64;
                }
            }
            3 => {
                let mut s = it.into_seq_iter();
                if let Some(x) = s.next() {
                    sum += x.id as u64;
                }
                drop(s);
            }
            _ => {
                let s = it.into_seq_iter();
                drop(s);
            }
        }
        sum
    }
    match kind {
        0 => {
            let v: Vec<Blob<N>> = (0..len).map(|i| Blob::new(i, heap)).collect();
            use_it(v.into_con_iter(), pulls, chunk, finish, threads)
        }
        1 => {
            let v: Vec<Blob<N>> = (0..len).map(|i| Blob::new(i, heap)).collect();
            use_it(v.into_iter().into_con_iter(), pulls, chunk, finish, threads)
        }
        _ => {
            // arrays: fixed sizes
            match len {
                0 => use_it(std::array::from_fn::<Blob<N>, 0, _>(|i| Blob::new(i, heap)).into_con_iter(), pulls, chunk, finish, threads),
                1..=3 => use_it(std::array::from_fn::<Blob<N>, 3, _>(|i| Blob::new(i, heap)).into_con_iter(), pulls, chunk, finish, threads),
                _ => use_it(std::array::from_fn::<Blob<N>, 17, _>(|i| Blob::new(i, heap)).into_con_iter(), pulls, chunk, finish, threads),
            }
        }
    }
}

pub fn cmd_leak(a: &Args) -> i32 {
    let seed = a.u64("seed", 1);
    let execs = a.u64("execs", 60);
    let reps = a.u64("reps", 20);
    let shard = a.u64("shard", 0);
    let nshards = a.u64("nshards", 1);
    let only = a.get("only").map(|s| s.split(':').next().unwrap().parse::<u64>().unwrap());
    let t0 = std::time::Instant::now();
    BOXED.store(true, Relaxed); // every tracked element owns heap memory
    let mut ra = run_args(a);
    ra.kinds = a.list("kinds", "vec,array,iter_owned,stdvec_iter");
    let mut cases = 0u64;
    let mut windows = 0u64;
    let mut violations = 0u64;
    let mut inconclusive = 0u64;
    let mut nontrivial = HashSet::new();
    let mut per_kind: BTreeMap<String, u64> = BTreeMap::new();
    let mut samples = Vec::new();
    let mut sink = 0u64;
    // a replayed case (--only) is executed whatever --execs / --shard say
    let (mut e, execs) = match only {
        Some(o) => (only_case(&o), only_case(&o) + 1),
        None => (shard, execs),
    };
    while e < execs {
        if only.map(|o| o != e).unwrap_or(false) {
            e += nshards;
            continue;
        }
        // even cases: histories of the general executor on consuming kinds; odd: blob scenarios of varying element size
        let mut rng = Rng::new(mix(seed ^ 0x1EA4, e));
        let desc: J;
        let mut deltas: Vec<i64> = Vec::new();
        let kindname: String;
        if e % 2 == 0 {
            let mut c = make_case(&ra, e / 2);
            // a quarter of the histories also contain a fault: what was not delivered must still be released
            if rng.chance(3, 8) {
                let k = rng.below(c.len + 2) as i64;
                c.cfg.inject = match rng.below(4) {
                    0 => {
                        // make sure a closure runs: chunked for_each / fold on the first thread
                        let n = rng.range(2, 5);
                        let op = match rng.below(3) {
                            0 => Op::ForEach { n },
                            1 => Op::EnumForEach { n },
                            _ => Op::Fold { n },
                        };
                        c.cfg.scripts[0].pre.insert(0, op);
                        Inject::Closure(k)
                    }
                    1 | 2 => Inject::Drop(k),
                    _ => Inject::WrappedNext(k),
                };
            }
            kindname = c.kind.clone();
            desc = J::obj().set("case", J::S(format!("{}:0", e))).set("kind", J::s(&c.kind)).set("len", J::u(c.len)).set("threads", J::u(c.cfg.scripts.len())).set("scripts", J::A(c.cfg.scripts.iter().map(|s| s.render()).collect())).set("finish", J::S(format!("{:?}", c.cfg.finish))).set("fault", J::S(format!("{:?}", c.cfg.inject)));
            for rep in 0..=reps {
                alloc::ENABLED.store(true, Relaxed);
                let before = alloc::snapshot();
                {
                    let (out, _) = kinds::run_kind(&c.kind, c.len, c.salt, c.hint, &c.cfg);
                    sink += out.delivered as u64;
                    drop(out);
                }
                let after = alloc::snapshot();
                alloc::ENABLED.store(false, Relaxed);
                if rep > 0 {
                    deltas.push(after.0 - before.0);
                    windows += 1;
                }
            }
            if c.len > 0 {
                nontrivial.insert(c.hash);
            }
        } else {
            let kind = rng.below(3) as u8;
            let len = *rng.pick(&[0usize, 1, 3, 17, 100, 1000]);
            let size = rng.below(3);
            let heap = rng.chance(1, 2);
            let pulls = rng.below(len + 3);
            let chunk = *rng.pick(&[0usize, 1, 4, 64, 2000]);
            let finish = rng.below(5) as u8;
            let threads = *rng.pick(&[1usize, 1, 2, 4]);
            kindname = ["vec", "stdvec_iter", "array"][kind as usize].to_string();
            desc = J::obj()
                .set("case", J::S(format!("{}:0", e)))
                .set("kind", J::s(&kindname))
                .set("len", J::u(len))
                .set("element_bytes", J::u([8, 64, 4096][size]))
                .set("heap_payload", J::B(heap))
                .set("single_pulls", J::u(pulls))
                .set("chunk", J::u(chunk))
                .set("finish", J::s(["drop", "skip_to_end then drop", "into_seq_iter consumed", "into_seq_iter partly consumed", "into_seq_iter dropped"][finish as usize]))
                .set("threads", J::u(threads));
            for rep in 0..=reps {
                alloc::ENABLED.store(true, Relaxed);
                let before = alloc::snapshot();
                sink += match size {
                    0 => blob_scenario::<8>(kind, len, heap, pulls, chunk, finish, threads),
                    1 => blob_scenario::<64>(kind, len, heap, pulls, chunk, finish, threads),
                    _ => blob_scenario::<4096>(kind, len.min(100), heap, pulls, chunk, finish, threads),
                };
                let after = alloc::snapshot();
                alloc::ENABLED.store(false, Relaxed);
                if rep > 0 {
                    deltas.push(after.0 - before.0);
                    windows += 1;
                }
            }
            if len > 0 {
                let mut h = Fnv::new();
                h.add_str(&desc.render());
                nontrivial.insert(h.0);
            }
        }
        cases += 1;
        *per_kind.entry(kindname.clone()).or_default() += 1;
        let leaked_every = deltas.iter().all(|d| *d > 0);
        let any = deltas.iter().any(|d| *d != 0);
        if samples.len() < 3 && !any && cases % 5 == 1 {
            samples.push(desc.clone().set("live_bytes_delta_per_repetition", J::A(deltas.iter().take(4).map(|d| J::I(*d as i128)).collect())));
        }
        if leaked_every && !deltas.is_empty() {
            violations += 1;
            let mut replay = vec!["leak".to_string()];
            for (k, v) in &a.kv {
                if !["only", "execs", "shard", "nshards"].contains(&k.as_str()) {
                    replay.push(format!("--{}={}", k, v));
                }
            }
            replay.push(format!("--execs={}", execs));
            replay.push(format!("--only={}", e));
            let detail = format!("every one of {} repetitions of create / use / drop left heap memory allocated: {} bytes per repetition", deltas.len(), deltas[0]);
            let mut j = violation_json("LEAK", &["C15"], &detail, desc, replay);
            j.put("kind", J::s(&kindname));
            j.put("len", J::u(0));
            emit(j);
        } else if any {
            inconclusive += 1;
        }
        e += nshards;
    }
    write_hashes(a.get("hash-out"), nontrivial.iter());
    emit(J::obj()
        .set("t", J::s("summary"))
        .set("engine", J::s("leak"))
        .set("cases", J::u64(cases))
        .set("windows_measured", J::u64(windows))
        .set("distinct_nontrivial", J::u(nontrivial.len()))
        .set("irregular_windows", J::u64(inconclusive))
        .set("per_kind", J::from_map(&per_kind))
        .set("violations", J::u64(violations))
        .set("samples", J::A(samples))
        .set("sink", J::u64(sink % 7))
        .set("wall_s", J::F(t0.elapsed().as_secs_f64())));
    (violations > 0) as i32
}

// =================================================================================================
// lowlevel (C14, run-time half): safe call sequences on the public AtomicIter / AtomicCounter API
// =================================================================================================

fn lowlevel_seq<C: AtomicIter<Tk> + ConcurrentIter<Item = Tk>>(it: C, seq: &str) {
    let mut held: Vec<Tk> = Vec::new();
    match seq {
        "get_twice" => {
            held.extend(it.get(0));
            held.extend(it.get(0));
        }
        "store_then_pull" => {
            held.extend(it.next());
            it.counter().store(0);
            held.extend(it.next());
        }
        "get_then_fetch_n" => {
            held.extend(it.get(1));
            if let Some(c) = it.fetch_n(3) {
                held.extend(c.values);
            }
        }
        "get_then_drop" => {
            held.extend(it.get(2));
        }
        "control" => {
            held.extend(it.next());
            if let Some(c) = it.next_chunk(2) {
                held.extend(c.values);
            }
        }
        _ => panic!("unknown sequence"),
    }
    drop(it);
    drop(held);
}

pub fn cmd_lowlevel(a: &Args) -> i32 {
    if a.flag("boxed") {
        BOXED.store(true, Relaxed);
    }
    let seqs = ["control", "get_twice", "store_then_pull", "get_then_fetch_n", "get_then_drop"];
    let kinds_ = ["vec", "array"];
    let only_seq = a.get("seq");
    let only_kind = a.get("kind");
    let mut viol = 0;
    for kind in kinds_ {
        for seq in seqs {
            if only_seq.map(|s| s != seq).unwrap_or(false) || only_kind.map(|k| k != kind).unwrap_or(false) {
                continue;
            }
            let salt = 77;
            ledger_reset(16, salt);
            let r = catch_unwind(AssertUnwindSafe(|| match kind {
                "vec" => lowlevel_seq(crate::probe::mk_tk_vec(5, salt).into_con_iter(), seq),
                _ => lowlevel_seq(std::array::from_fn::<Tk, 5, _>(|i| Tk::new(i, salt)).into_con_iter(), seq),
            }));
            let drops: Vec<u32> = (0..5).map(|i| DROPPED[i].load(Relaxed)).collect();
            let twice: Vec<usize> = (0..5).filter(|i| drops[*i] > 1).collect();
            let never: Vec<usize> = (0..5).filter(|i| drops[*i] == 0).collect();
            let ok = r.is_ok() && twice.is_empty() && never.is_empty();
            if !ok {
                viol += 1;
            }
            emit(J::obj()
                .set("t", J::s("lowlevel"))
                .set("kind", J::s(kind))
                .set("seq", J::s(seq))
                .set("ok", J::B(ok))
                .set("panicked", J::B(r.is_err()))
                .set("destructor_runs", J::A(drops.iter().map(|d| J::u(*d as usize)).collect()))
                .set("two_owners", J::A(twice.iter().map(|d| J::u(*d)).collect()))
                .set("never_dropped", J::A(never.iter().map(|d| J::u(*d)).collect())));
        }
    }
    let _ = PROBE.calls.load(Relaxed);
    let _ = DriveVisitor;
    (viol > 0) as i32
}

// =================================================================================================
// zst: zero-sized element types on the consuming kinds (counts, indices, destructor runs)
// =================================================================================================

static ZDROPS: std::sync::atomic::AtomicUsize = std::sync::atomic::AtomicUsize::new(0);
struct Z;
impl Drop for Z {
    fn drop(&mut self) {
        ZDROPS.fetch_add(1, Relaxed);
    }
}

fn zst_case<C: ConcurrentIter<Item = Z>>(it: C, len: usize, style: usize, n: usize, threads: usize) -> Result<(), String> {
    use std::sync::atomic::AtomicUsize;
    let seen: Vec<AtomicUsize> = (0..len + 1).map(|_| AtomicUsize::new(0)).collect();
    let delivered = AtomicUsize::new(0);
    let bad_idx = AtomicUsize::new(0);
    let mark = |i: usize| {
        if i < len {
            seen[i].fetch_add(1, Relaxed);
        } else {
            bad_idx.fetch_add(1, Relaxed);
        }
    };
    let work = |it: &C, t: usize| match (style + t) % 6 {
        0 => it.for_each(n, |_z| {
            delivered.fetch_add(1, Relaxed);
        }),
        1 => it.enumerate_for_each(n, |i, _z| {
            delivered.fetch_add(1, Relaxed);
            mark(i);
        }),
        2 => {
            let c = it.fold(n, 0usize, |a, _z| a + 1);
            delivered.fetch_add(c, Relaxed);
        }
        3 => {
            while let Some(c) = it.next_chunk(n) {
                let b = c.begin_idx;
                let l = c.values.len();
                if l == 0 || l > n || (l < n && b + l != len) {
                    bad_idx.fetch_add(1, Relaxed);
                }
                let mut k = 0;
                for _z in c.values {
                    mark(b + k);
                    k += 1;
                }
                if k != l {
                    bad_idx.fetch_add(1, Relaxed);
                }
                delivered.fetch_add(k, Relaxed);
            }
        }
        4 => {
            let mut b = it.buffered_iter(n);
            while let Some(c) = b.next() {
                let bg = c.begin_idx;
                let l = c.values.len();
                if l == 0 || l > n || (l < n && bg + l != len) {
                    bad_idx.fetch_add(1, Relaxed);
                }
                let mut k = 0;
                for _z in c.values {
                    mark(bg + k);
                    k += 1;
                }
                delivered.fetch_add(k, Relaxed);
            }
        }
        _ => {
            while let Some(x) = it.next_id_and_value() {
                mark(x.idx);
                delivered.fetch_add(1, Relaxed);
            }
        }
    };
    if threads <= 1 {
        work(&it, 0);
    } else {
        let itr = &it;
        let w = &work;
        std::thread::scope(|s| {
            for t in 0..threads {
                s.spawn(move || w(itr, t));
            }
        });
    }
    let rest = it.into_seq_iter().count();
    let d = delivered.load(Relaxed);
    if d + rest != len || rest != 0 {
        return Err(format!("{} of {} zero-sized elements were delivered ({} left for into_seq_iter)", d, len, rest));
    }
    if bad_idx.load(Relaxed) > 0 {
        return Err("an index outside the source was reported, or a chunk broke its contract (empty, longer than requested, short without ending at the last position, length disagreeing with its items)".into());
    }
    Ok(())
}

pub fn cmd_zst(a: &Args) -> i32 {
    let t0 = std::time::Instant::now();
    let mut cases = 0u64;
    let mut violations = 0u64;
    let mut nontrivial = 0u64;
    for kind in ["vec", "array", "stdvec_iter"] {
        for len in [0usize, 1, 2, 5, 8, 33, 1000] {
            for style in 0..6usize {
                for n in [1usize, 2, 3, 7, 64] {
                    for threads in [1usize, 3] {
                        ZDROPS.store(0, Relaxed);
                        let r = catch_unwind(AssertUnwindSafe(|| match kind {
                            "vec" => zst_case((0..len).map(|_| Z).collect::<Vec<Z>>().into_con_iter(), len, style, n, threads),
                            "stdvec_iter" => zst_case((0..len).map(|_| Z).collect::<Vec<Z>>().into_iter().into_con_iter(), len, style, n, threads),
                            _ => match len {
                                0 => zst_case(std::array::from_fn::<Z, 0, _>(|_| Z).into_con_iter(), 0, style, n, threads),
                                1 => zst_case(std::array::from_fn::<Z, 1, _>(|_| Z).into_con_iter(), 1, style, n, threads),
                                2 => zst_case(std::array::from_fn::<Z, 2, _>(|_| Z).into_con_iter(), 2, style, n, threads),
                                5 => zst_case(std::array::from_fn::<Z, 5, _>(|_| Z).into_con_iter(), 5, style, n, threads),
                                8 => zst_case(std::array::from_fn::<Z, 8, _>(|_| Z).into_con_iter(), 8, style, n, threads),
                                33 => zst_case(std::array::from_fn::<Z, 33, _>(|_| Z).into_con_iter(), 33, style, n, threads),
                                _ => zst_case(std::array::from_fn::<Z, 1000, _>(|_| Z).into_con_iter(), 1000, style, n, threads),
                            },
                        }));
                        cases += 1;
                        if len > 1 {
                            nontrivial += 1;
                        }
                        let mut problem = match r {
                            Ok(Ok(())) => None,
                            Ok(Err(e)) => Some(e),
                            Err(_) => Some(format!("panicked: {}", LAST_PANIC.with(|c| c.borrow().clone()))),
                        };
                        let drops = ZDROPS.load(Relaxed);
                        if problem.is_none() && drops != len {
                            problem = Some(format!("{} destructor runs for {} zero-sized elements", drops, len));
                        }
                        if let Some(p) = problem {
                            violations += 1;
                            if violations <= 4 {
                                let case = J::obj().set("case", J::S(format!("zst:{}:{}:{}:{}:{}", kind, len, style, n, threads))).set("kind", J::s(kind)).set("len", J::u(len)).set("style", J::s(["for_each", "enumerate_for_each", "fold", "next_chunk", "buffered_iter", "next_id_and_value"][style])).set("chunk_size", J::u(n)).set("threads", J::u(threads));
                                let mut j = violation_json("ZST", &["C01", "C12", "C08", "C03"], &format!("zero-sized element type: {}", p), case, vec!["zst".into()]);
                                j.put("kind", J::s(kind));
                                j.put("len", J::u(len));
                                emit(j);
                            }
                        }
                    }
                }
            }
        }
    }
    let _ = a;
    emit(J::obj().set("t", J::s("summary")).set("engine", J::s("zst")).set("cases", J::u64(cases)).set("distinct_nontrivial", J::u64(nontrivial)).set("violations", J::u64(violations)).set("wall_s", J::F(t0.elapsed().as_secs_f64())));
    (violations > 0) as i32
}

// =================================================================================================
// wrappers: values() / ids_and_values() driven through std's adaptor methods (nth, skip, step_by, take, last,
// count) on one thread, against a cursor model
// =================================================================================================

struct WrapVisitor {
    seed: u64,
    steps: usize,
}

impl Visitor for WrapVisitor {
    type Out = Result<(usize, Vec<String>), String>;
    fn visit<C: ConcurrentIter>(self, it: C, info: &SrcInfo) -> Self::Out
    where
        C::Item: Elem,
    {
        let mut rng = Rng::new(self.seed);
        let len = info.len;
        let mut c = 0usize; // model cursor: next undelivered position (sequential use)
        let mut trace: Vec<String> = Vec::new();
        let mut checked = 0usize;
        let pos_of = |x: &C::Item| x.ident(info);
        macro_rules! expect {
            ($what:expr, $got:expr, $want:expr) => {{
                checked += 1;
                let got: Option<(Option<usize>, u64)> = $got;
                let want: Option<usize> = $want;
                match (got, want) {
                    (None, None) => {}
                    (Some((idx, id)), Some(w)) => {
                        if id != w as u64 || idx.map(|i| i != w).unwrap_or(false) {
                            return Err(format!("{} returned (index {:?}, position {}) but position {} was expected; trace {:?}", $what, idx, id, w, trace));
                        }
                    }
                    (g, w) => return Err(format!("{} returned {:?} but {:?} was expected; trace {:?}", $what, g.map(|x| x.1), w, trace)),
                }
            }};
        }
        for _ in 0..self.steps {
            match rng.below(9) {
                0 => {
                    trace.push("next".into());
                    let r = it.next_id_and_value().map(|x| (Some(x.idx), pos_of(&x.value).id));
                    let w = if c < len { Some(c) } else { None };
                    c = (c + 1).min(len.max(c));
                    if w.is_some() {
                        c = w.unwrap() + 1;
                    }
                    expect!("next_id_and_value", r, w);
                }
                1 => {
                    let m = rng.below(4);
                    trace.push(format!("values().nth({m})"));
                    let r = it.values().nth(m).map(|x| (None, pos_of(&x).id));
                    let w = if c + m < len { Some(c + m) } else { None };
                    c = (c + m + 1).min(len);
                    expect!("values().nth", r, w);
                }
                2 => {
                    let m = rng.below(4);
                    trace.push(format!("ids_and_values().nth({m})"));
                    let r = it.ids_and_values().nth(m).map(|(i, x)| (Some(i), pos_of(&x).id));
                    let w = if c + m < len { Some(c + m) } else { None };
                    c = (c + m + 1).min(len);
                    expect!("ids_and_values().nth", r, w);
                }
                3 => {
                    let m = rng.below(4);
                    trace.push(format!("values().skip({m}).next()"));
                    let r = it.values().skip(m).next().map(|x| (None, pos_of(&x).id));
                    let w = if c + m < len { Some(c + m) } else { None };
                    c = (c + m + 1).min(len);
                    expect!("values().skip().next()", r, w);
                }
                4 => {
                    let s = rng.range(2, 4);
                    let t = rng.range(1, 4);
                    trace.push(format!("ids_and_values().step_by({s}).take({t})"));
                    let got: Vec<(usize, u64)> = it.ids_and_values().step_by(s).take(t).map(|(i, x)| (i, pos_of(&x).id)).collect();
                    let mut want = Vec::new();
                    let mut p = c;
                    for k in 0..t {
                        if p < len {
                            want.push(p);
                            c = p + 1;
                            p += s;
                        } else {
                            // the adaptor polled and found the end
                            if k > 0 {
                                c = len;
                            } else {
                                c = c.max(len).min(len.max(c));
                            }
                            break;
                        }
                    }
                    checked += 1;
                    if got.iter().map(|g| g.1 as usize).collect::<Vec<_>>() != want || got.iter().any(|(i, id)| *i as u64 != *id) {
                        return Err(format!("ids_and_values().step_by({s}).take({t}) returned (index, position) {:?} but positions {:?} were expected; trace {:?}", got, want, trace));
                    }
                    // take(t) stops polling after t items; if fewer were found the end was reached
                    if want.len() < t {
                        c = len;
                    }
                }
                5 => {
                    let t = rng.range(1, 3);
                    trace.push(format!("values().take({t}).count()"));
                    let got = it.values().take(t).count();
                    let want = t.min(len.saturating_sub(c));
                    c = (c + want).min(len);
                    if want < t {
                        c = len;
                    }
                    checked += 1;
                    if got != want {
                        return Err(format!("values().take({t}).count() is {got}, expected {want}; trace {:?}", trace));
                    }
                }
                6 => {
                    let n = rng.range(1, 4);
                    trace.push(format!("next_chunk({n})"));
                    let r = it.next_chunk(n);
                    let want = if c < len { Some((c, n.min(len - c))) } else { None };
                    checked += 1;
                    match (r, want) {
                        (None, None) => {}
                        (Some(ch), Some((b, l))) => {
                            let ids: Vec<u64> = ch.values.map(|x| pos_of(&x).id).collect();
                            if ch.begin_idx != b || ids != (b as u64..(b + l) as u64).collect::<Vec<_>>() {
                                return Err(format!("next_chunk({n}) returned begin {} positions {:?}, expected {}..{}; trace {:?}", ch.begin_idx, ids, b, b + l, trace));
                            }
                            c = b + l;
                        }
                        (g, w) => return Err(format!("next_chunk({n}) returned {:?}, expected {:?}; trace {:?}", g.map(|x| x.begin_idx), w, trace)),
                    }
                }
                7 => {
                    trace.push("try_get_len".into());
                    if info.exact_len {
                        checked += 1;
                        let l = it.try_get_len();
                        if l != Some(len.saturating_sub(c)) {
                            return Err(format!("try_get_len is {:?}, expected Some({}); trace {:?}", l, len.saturating_sub(c), trace));
                        }
                    }
                }
                _ => {
                    let s = rng.range(2, 3);
                    trace.push(format!("values().step_by({s}).take(2)"));
                    let got: Vec<u64> = it.values().step_by(s).take(2).map(|x| pos_of(&x).id).collect();
                    let mut want = Vec::new();
                    if c < len {
                        want.push(c as u64);
                        if c + s < len {
                            want.push((c + s) as u64);
                            c = c + s + 1;
                        } else {
                            c = len;
                        }
                    }
                    checked += 1;
                    if got != want {
                        return Err(format!("values().step_by({s}).take(2) returned positions {:?}, expected {:?}; trace {:?}", got, want, trace));
                    }
                }
            }
        }
        // the remainder is what the model says
        let rem: Vec<u64> = it.into_seq_iter().map(|x| x.ident(info).id).collect();
        let want: Vec<u64> = (c.min(len) as u64..len as u64).collect();
        if rem != want {
            return Err(format!("into_seq_iter yielded positions {:?}, expected {:?}; trace {:?}", rem, want, trace));
        }
        Ok((checked, trace))
    }
}

pub fn cmd_wrappers(a: &Args) -> i32 {
    let seed = a.u64("seed", 1);
    let execs = a.u64("execs", 2000);
    let shard = a.u64("shard", 0);
    let nshards = a.u64("nshards", 1);
    let only = a.get("only").map(|s| s.split(':').next().unwrap().parse::<u64>().unwrap());
    let t0 = std::time::Instant::now();
    let kinds_: Vec<&str> = kinds::ALL_KINDS.to_vec();
    let (mut cases, mut violations, mut checked) = (0u64, 0u64, 0u64);
    let mut nontrivial = HashSet::new();
    let mut per_kind: BTreeMap<String, u64> = BTreeMap::new();
    let mut samples = Vec::new();
    // a replayed case (--only) is executed whatever --execs / --shard say
    let (mut e, execs) = match only {
        Some(o) => (only_case(&o), only_case(&o) + 1),
        None => (shard, execs),
    };
    while e < execs {
        if only.map(|o| o != e).unwrap_or(false) {
            e += nshards;
            continue;
        }
        let mut rng = Rng::new(mix(seed ^ 0x3A99, e));
        let kind = kinds_[(e as usize) % kinds_.len()];
        let len = kinds::snap_len(kind, *rng.pick(&[0usize, 1, 2, 3, 5, 8, 13]));
        let steps = rng.range(2, 10);
        let s = rng.next_u64();
        let r = catch_unwind(AssertUnwindSafe(|| with_kind(kind, len, rng.next_u64(), Hint::Exact, None, WrapVisitor { seed: s, steps })));
        cases += 1;
        *per_kind.entry(kind.to_string()).or_default() += 1;
        let problem = match r {
            Err(_) => Some(format!("panicked: {}", LAST_PANIC.with(|c| c.borrow().clone()))),
            Ok((Err(e), _, _)) => Some(e),
            Ok((Ok((n, trace)), _, viol)) => {
                checked += n as u64;
                if len > 1 {
                    let mut h = Fnv::new();
                    h.add_str(kind);
                    h.add(len as u64);
                    h.add_str(&trace.join(";"));
                    nontrivial.insert(h.0);
                }
                if samples.len() < 2 && len > 2 && trace.len() > 3 {
                    samples.push(J::obj().set("kind", J::s(kind)).set("len", J::u(len)).set("operations", J::A(trace.iter().map(|t| J::s(t)).collect())));
                }
                viol.first().map(|v| v.detail.clone())
            }
        };
        if let Some(p) = problem {
            violations += 1;
            if violations <= 4 {
                let case = J::obj().set("case", J::S(format!("{}:0", e))).set("kind", J::s(kind)).set("len", J::u(len));
                let mut j = violation_json("WRAPPER", &["C02", "C04", "C01", "C10"], &p, case, vec!["wrappers".into(), format!("--seed={}", seed), format!("--execs={}", execs), format!("--only={}", e)]);
                j.put("kind", J::s(kind));
                j.put("len", J::u(len));
                emit(j);
            }
        }
        e += nshards;
    }
    write_hashes(a.get("hash-out"), nontrivial.iter());
    emit(J::obj().set("t", J::s("summary")).set("engine", J::s("wrappers")).set("cases", J::u64(cases)).set("distinct_nontrivial", J::u(nontrivial.len())).set("results_checked", J::u64(checked)).set("per_kind", J::from_map(&per_kind)).set("violations", J::u64(violations)).set("samples", J::A(samples)).set("wall_s", J::F(t0.elapsed().as_secs_f64())));
    (violations > 0) as i32
}
