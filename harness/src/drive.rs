//! Generic executor: runs per-thread scripts against one shared concurrent iterator in one of
//! three scheduling modes and records the history at the client boundary (call stamp before
//! invoking, return stamp after the reply).

use crate::elem::*;
use crate::ops::*;
use crate::probe::PROBE;
use crate::rules::{self, Hist, Violation};
use crate::sched::{self, now, PointKind, Policy, Sched, SchedReport, Teardown};
use orx_concurrent_iter::{ConcurrentIter, HasMore};
use std::cell::RefCell;
use std::panic::{catch_unwind, resume_unwind, AssertUnwindSafe};
use std::sync::atomic::{AtomicI64, AtomicUsize, Ordering};

#[derive(Clone, Copy, Debug, PartialEq, Eq)]
pub enum Mode {
    /// scripts run one after another on the calling thread
    Seq,
    /// baton scheduler (needs the hook build)
    Sched,
    /// free-running OS threads behind a start barrier
    Free,
}

#[derive(Clone, Copy, Debug, PartialEq, Eq)]
pub enum Finish {
    Drop,
    /// into_seq_iter, consume `take` items (usize::MAX = all), drop the rest
    IntoSeq { take: usize },
}

#[derive(Clone, Copy, Debug, PartialEq, Eq)]
pub enum Inject {
    None,
    /// the k-th `next` of the wrapped iterator panics
    WrappedNext(i64),
    /// the k-th clone panics
    Clone(i64),
    /// the k-th invocation of a for_each / fold closure panics
    Closure(i64),
    /// the k-th destructor run of an element panics (after it has been counted)
    Drop(i64),
}

#[derive(Clone, Debug)]
pub struct ExecCfg {
    pub mode: Mode,
    pub scripts: Vec<Script>,
    pub finish: Finish,
    pub policy: Policy,
    pub sched_seed: u64,
    pub freeze: Option<(usize, u64)>,
    pub inject: Inject,
    pub perturb: u32,
    pub race: bool,
}

pub struct ExecOut {
    pub violations: Vec<Violation>,
    pub recs: Vec<Rec>,
    pub sched: Option<SchedReport>,
    pub torn: bool,
    pub overlapping_calls: u64,
    pub delivered: usize,
    pub remainder_len: Option<usize>,
    pub remainder_ids: Option<Vec<u64>>,
    pub remainder_complete: bool,
    pub probe_handoffs: u64,
    pub probe_calls: u64,
}

/// description of the case being executed (for reports written from inside an execution)
pub static CURRENT_CASE: std::sync::Mutex<String> = std::sync::Mutex::new(String::new());

/// Free-running mode: a logical deadlock detector. If every worker that has not finished is asleep in the kernel
/// (state S/D) and none of them has consumed any CPU time over `SAMPLES` consecutive samples, nobody is left
/// to wake anybody (the crate uses no timers): the execution can never finish. Spinning hangs are not detected here.
fn deadlock_monitor(tids: &[std::sync::atomic::AtomicU64], done: &std::sync::atomic::AtomicBool) {
    const SAMPLES: u32 = 120;
    let mut quiet = 0u32;
    let mut last_cpu = u64::MAX;
    while !done.load(Ordering::Relaxed) {
        std::thread::park_timeout(std::time::Duration::from_millis(25));
        if done.load(Ordering::Relaxed) {
            return;
        }
        let mut all_asleep = true;
        let mut cpu = 0u64;
        let mut live = 0;
        for t in tids {
            let tid = t.load(Ordering::Relaxed);
            if tid == 0 {
                all_asleep = false; // not started yet
                continue;
            }
            if let Ok(s) = std::fs::read_to_string(format!("/proc/self/task/{}/stat", tid)) {
                if let Some(p) = s.rfind(')') {
                    let f: Vec<&str> = s[p + 1..].split_whitespace().collect();
                    // f[0] = state, f[11] = utime, f[12] = stime
                    if f.len() > 12 {
                        live += 1;
                        if f[0] != "S" && f[0] != "D" {
                            all_asleep = false;
                        }
                        cpu += f[11].parse::<u64>().unwrap_or(0) + f[12].parse::<u64>().unwrap_or(0);
                    }
                }
            }
        }
        if live > 0 && all_asleep && cpu == last_cpu {
            quiet += 1;
        } else {
            quiet = 0;
        }
        last_cpu = cpu;
        if quiet >= SAMPLES && !done.load(Ordering::Relaxed) {
            let case = CURRENT_CASE.lock().map(|c| c.clone()).unwrap_or_default();
            println!(
                "{{\"t\":\"violation\",\"rule\":\"DEADLOCK\",\"props\":[\"C09\",\"C18\"],\"kind\":\"\",\"len\":0,\"detail\":\"free-running execution: all {} unfinished threads are asleep in the kernel and have consumed no CPU time for {} consecutive samples: nobody is left to wake them\",\"case\":{}}}",
                live,
                SAMPLES,
                if case.is_empty() { "{}".to_string() } else { case }
            );
            use std::io::Write;
            let _ = std::io::stdout().flush();
            std::process::exit(1);
        }
    }
}

pub static CLOSURE_CALLS: AtomicI64 = AtomicI64::new(0);
pub static CLOSURE_PANIC_AT: AtomicI64 = AtomicI64::new(-1);

thread_local! {
    pub static LAST_PANIC: RefCell<String> = const { RefCell::new(String::new()) };
}

/// quiet panic hook: remembers message and location of unexpected panics instead of printing them
pub fn install_panic_hook() {
    std::panic::set_hook(Box::new(|info| {
        let msg = if let Some(s) = info.payload().downcast_ref::<&str>() {
            s.to_string()
        } else if let Some(s) = info.payload().downcast_ref::<String>() {
            s.clone()
        } else {
            "<non-string payload>".to_string()
        };
        let loc = info.location().map(|l| format!("{}:{}", l.file(), l.line())).unwrap_or_default();
        if !loc.contains("/repo/") {
            // a panic of the harness itself is never silent
            eprintln!("HARNESS-PANIC: {} @ {}", msg, loc);
        }
        LAST_PANIC.with(|c| *c.borrow_mut() = format!("{} @ {}", msg, loc));
    }));
}

struct Open {
    op: u8,
    t0: u64,
    t1: Option<u64>,
}

pub struct Ctx<'a> {
    pub tid: usize,
    pub info: &'a SrcInfo,
    pub recs: Vec<Rec>,
    open: Option<Open>,
    cur_items: Vec<Item>,
    pub saw_end: bool,
}

impl<'a> Ctx<'a> {
    pub fn new(tid: usize, info: &'a SrcInfo) -> Self {
        sched::set_worker_id(tid);
        Ctx { tid, info, recs: Vec::new(), open: None, cur_items: Vec::new(), saw_end: false }
    }
    fn call(&mut self, op: u8) -> u64 {
        sched::point(PointKind::OpStart);
        let t0 = now();
        self.open = Some(Open { op, t0, t1: None });
        self.cur_items.clear();
        t0
    }
    /// the API call returned (its result may still be consumed)
    fn returned(&mut self) -> u64 {
        let t1 = now();
        if let Some(o) = self.open.as_mut() {
            o.t1 = Some(t1);
        }
        t1
    }
    fn close(&mut self, res: Res) {
        let o = self.open.take().expect("open call");
        let t1 = o.t1.unwrap_or_else(now);
        if matches!(res, Res::End | Res::Opaque { .. } | Res::Skip) {
            self.saw_end = true;
        }
        self.recs.push(Rec { thread: self.tid as u8, op: o.op, t0: o.t0, t1, res });
        sched::point(PointKind::OpEnd);
    }
    fn item<E: Elem>(&mut self, e: &E, idx: usize) -> Item {
        let id = e.ident(self.info);
        Item { idx, id: id.id, addr: id.addr, sane: id.sane, is_clone: id.is_clone, t: now() }
    }
    fn on_panic(&mut self, class: String) {
        if let Some(o) = self.open.take() {
            let t1 = o.t1.unwrap_or_else(now);
            let items = std::mem::take(&mut self.cur_items);
            self.recs.push(Rec { thread: self.tid as u8, op: o.op, t0: o.t0, t1, res: Res::Panic { class, items } });
        }
    }
}

fn closure_fault() {
    sched::point(PointKind::User);
    let k = CLOSURE_CALLS.fetch_add(1, Ordering::Relaxed);
    if k == CLOSURE_PANIC_AT.load(Ordering::Relaxed) {
        resume_unwind(Box::new(Injected("closure")));
    }
}

/// consumes a chunk's values: records len() before and after every item
fn take_chunk<T: Elem, I: ExactSizeIterator<Item = T>>(ctx: &mut Ctx, begin: usize, mut vals: I, requested: usize, consume: usize) -> Res {
    let announced = vals.len();
    let mut len_trace_ok = true;
    let mut extra_after_end = false;
    let mut k = 0usize;
    // a chunk that is consumed completely is consumed through different parts of the Iterator interface
    // (the choice is a function of the chunk itself, so that it is the same in every build and for every twin)
    // (not while destructor faults are injected: what std's adaptors do with a value whose neighbour's destructor
    // panics is not the crate's business)
    let style = if consume == usize::MAX && DROP_PANIC_AT.load(Ordering::Relaxed) < 0 { (requested ^ begin ^ announced.wrapping_mul(7)) % 8 } else { 0 };
    match style {
        4 => {
            // internal iteration (Iterator::fold)
            let mut j = 0usize;
            vals.by_ref().for_each(|x| {
                let it = ctx.item(&x, begin.wrapping_add(j));
                ctx.cur_items.push(it);
                drop(x);
                j += 1;
            });
            if vals.len() != 0 || vals.next().is_some() {
                len_trace_ok = false;
            }
            drop(vals);
            return Res::Items { begin, announced, requested, items: std::mem::take(&mut ctx.cur_items), len_trace_ok, extra_after_end };
        }
        5 => {
            // every second item (Iterator::nth / advance_by): the skipped ones are released by the chunk
            let mut j = 0usize;
            for x in vals.by_ref().step_by(2) {
                let it = ctx.item(&x, begin.wrapping_add(2 * j));
                ctx.cur_items.push(it);
                drop(x);
                j += 1;
            }
            drop(vals);
            return Res::Items { begin, announced, requested, items: std::mem::take(&mut ctx.cur_items), len_trace_ok, extra_after_end };
        }
        6 => {
            // skip everything at once
            if let Some(x) = vals.nth(announced) {
                let it = ctx.item(&x, begin.wrapping_add(announced));
                ctx.cur_items.push(it);
                extra_after_end = true;
            }
            if vals.len() != 0 {
                len_trace_ok = false;
            }
            drop(vals);
            return Res::Items { begin, announced, requested, items: std::mem::take(&mut ctx.cur_items), len_trace_ok, extra_after_end };
        }
        7 => {
            // Iterator::last consumes the chunk
            if let Some(x) = vals.by_ref().last() {
                let it = ctx.item(&x, begin.wrapping_add(announced.wrapping_sub(1)));
                ctx.cur_items.push(it);
            } else if announced > 0 {
                len_trace_ok = false;
            }
            drop(vals);
            return Res::Items { begin, announced, requested, items: std::mem::take(&mut ctx.cur_items), len_trace_ok, extra_after_end };
        }
        _ => {}
    }
    while k < consume {
        let before = vals.len();
        match vals.next() {
            Some(x) => {
                if before != announced.wrapping_sub(k) {
                    len_trace_ok = false;
                }
                let it = ctx.item(&x, begin.wrapping_add(k));
                ctx.cur_items.push(it);
                drop(x);
                k += 1;
            }
            None => {
                if before != 0 {
                    len_trace_ok = false;
                }
                // a finished chunk stays finished
                if vals.next().is_some() {
                    extra_after_end = true;
                }
                break;
            }
        }
    }
    if vals.len() != announced.saturating_sub(k) && k <= announced {
        len_trace_ok = false;
    }
    drop(vals);
    Res::Items { begin, announced, requested, items: std::mem::take(&mut ctx.cur_items), len_trace_ok, extra_after_end }
}

fn fold_step(acc: [u64; 4], id: u64) -> [u64; 4] {
    [acc[0].wrapping_add(id.wrapping_mul(0x9E3779B97F4A7C15)), acc[1] ^ crate::util::mix(id, 7), acc[2].wrapping_add(crate::util::mix(id, 11)), acc[3] + 1]
}

pub fn exec_op<C: ConcurrentIter>(it: &C, op: &Op, ctx: &mut Ctx)
where
    C::Item: Elem,
{
    let code = op.code();
    match op {
        Op::Next => {
            ctx.call(code);
            let r = it.next();
            ctx.returned();
            match r {
                None => ctx.close(Res::End),
                Some(x) => {
                    let i = ctx.item(&x, usize::MAX);
                    ctx.cur_items.push(i);
                    drop(x);
                    ctx.cur_items.clear();
                    ctx.close(Res::Items { begin: usize::MAX, announced: usize::MAX, requested: 1, items: vec![i], len_trace_ok: true, extra_after_end: false });
                }
            }
        }
        Op::NextIdVal => {
            ctx.call(code);
            let r = it.next_id_and_value();
            ctx.returned();
            match r {
                None => ctx.close(Res::End),
                Some(x) => {
                    let i = ctx.item(&x.value, x.idx);
                    let idx = x.idx;
                    drop(x);
                    ctx.close(Res::Items { begin: idx, announced: usize::MAX, requested: 1, items: vec![i], len_trace_ok: true, extra_after_end: false });
                }
            }
        }
        Op::Chunk { n, consume } => {
            ctx.call(code);
            let r = it.next_chunk(*n);
            ctx.returned();
            match r {
                // nothing was requested: nothing is said about the end
                None if *n == 0 => ctx.close(Res::Empty),
                None => ctx.close(Res::End),
                Some(c) => {
                    let res = take_chunk(ctx, c.begin_idx, c.values, *n, *consume);
                    ctx.close(res);
                }
            }
        }
        Op::Buffered { n, pulls, consume } => {
            let mut b = it.buffered_iter(*n);
            for j in 0..*pulls {
                // a partly consumed chunk is followed by one that is drained to its end
                let consume = if *consume != usize::MAX && j % 2 == 1 { usize::MAX } else { *consume };
                ctx.call(code);
                let r = b.next();
                ctx.returned();
                match r {
                    None => {
                        ctx.close(Res::End);
                        break;
                    }
                    Some(c) => {
                        let res = take_chunk(ctx, c.begin_idx, c.values, *n, consume);
                        ctx.close(res);
                    }
                }
            }
        }
        Op::Values { k } => {
            let mut v = it.values();
            for _ in 0..*k {
                ctx.call(code);
                let r = v.next();
                ctx.returned();
                match r {
                    None => {
                        ctx.close(Res::End);
                        break;
                    }
                    Some(x) => {
                        let i = ctx.item(&x, usize::MAX);
                        drop(x);
                        ctx.close(Res::Items { begin: usize::MAX, announced: usize::MAX, requested: 1, items: vec![i], len_trace_ok: true, extra_after_end: false });
                    }
                }
            }
        }
        Op::IdsValues { k } => {
            let mut v = it.ids_and_values();
            for _ in 0..*k {
                ctx.call(code);
                let r = v.next();
                ctx.returned();
                match r {
                    None => {
                        ctx.close(Res::End);
                        break;
                    }
                    Some((idx, x)) => {
                        let i = ctx.item(&x, idx);
                        drop(x);
                        ctx.close(Res::Items { begin: idx, announced: usize::MAX, requested: 1, items: vec![i], len_trace_ok: true, extra_after_end: false });
                    }
                }
            }
        }
        Op::ForEach { n } => {
            ctx.call(code);
            {
                let c = RefCell::new(&mut *ctx);
                it.for_each(*n, |x| {
                    let mut c = c.borrow_mut();
                    let i = c.item(&x, usize::MAX);
                    c.cur_items.push(i);
                    drop(c);
                    closure_fault();
                    drop(x);
                });
            }
            ctx.returned();
            let items = std::mem::take(&mut ctx.cur_items);
            ctx.close(Res::Opaque { items, fold_ok: true });
        }
        Op::EnumForEach { n } => {
            ctx.call(code);
            {
                let c = RefCell::new(&mut *ctx);
                it.enumerate_for_each(*n, |idx, x| {
                    let mut c = c.borrow_mut();
                    let i = c.item(&x, idx);
                    c.cur_items.push(i);
                    drop(c);
                    closure_fault();
                    drop(x);
                });
            }
            ctx.returned();
            let items = std::mem::take(&mut ctx.cur_items);
            ctx.close(Res::Opaque { items, fold_ok: true });
        }
        Op::Fold { n } => {
            ctx.call(code);
            let acc = {
                let c = RefCell::new(&mut *ctx);
                it.fold(*n, [0u64; 4], |acc, x| {
                    let mut c = c.borrow_mut();
                    let i = c.item(&x, usize::MAX);
                    c.cur_items.push(i);
                    drop(c);
                    closure_fault();
                    drop(x);
                    fold_step(acc, i.id)
                })
            };
            ctx.returned();
            let items = std::mem::take(&mut ctx.cur_items);
            let expect = items.iter().fold([0u64; 4], |a, i| fold_step(a, i.id));
            ctx.close(Res::Opaque { items, fold_ok: expect == acc });
        }
        Op::Len => {
            ctx.call(code);
            let v = it.try_get_len();
            ctx.returned();
            ctx.close(Res::Len(v));
        }
        Op::HasMore => {
            ctx.call(code);
            let v = it.has_more();
            ctx.returned();
            ctx.close(match v {
                HasMore::No => Res::More(0, 0),
                HasMore::Maybe => Res::More(1, 0),
                HasMore::Yes(n) => Res::More(2, n),
            });
        }
        Op::UnwindNext => {
            // the pull is made by a destructor (a scope guard) while this thread unwinds from an unrelated panic
            struct PullOnDrop<'a, C: ConcurrentIter> {
                it: &'a C,
                slot: &'a RefCell<Option<orx_concurrent_iter::Next<C::Item>>>,
            }
            impl<'a, C: ConcurrentIter> Drop for PullOnDrop<'a, C> {
                fn drop(&mut self) {
                    *self.slot.borrow_mut() = self.it.next_id_and_value();
                }
            }
            ctx.call(code);
            let slot = RefCell::new(None);
            let armed = PROBE.panic_at.load(Ordering::Relaxed) >= 0 || CLONE_PANIC_AT.load(Ordering::Relaxed) >= 0 || DROP_PANIC_AT.load(Ordering::Relaxed) >= 0;
            if armed {
                // an injected fault inside a destructor that runs while unwinding would abort the process: plain pull
                *slot.borrow_mut() = it.next_id_and_value();
            } else {
                let _ = catch_unwind(AssertUnwindSafe(|| {
                    let _guard = PullOnDrop { it, slot: &slot };
                    resume_unwind(Box::new(Injected("unrelated-panic")));
                }));
            }
            ctx.returned();
            match slot.into_inner() {
                None => ctx.close(Res::End),
                Some(x) => {
                    let i = ctx.item(&x.value, x.idx);
                    let idx = x.idx;
                    drop(x);
                    ctx.close(Res::Items { begin: idx, announced: usize::MAX, requested: 1, items: vec![i], len_trace_ok: true, extra_after_end: false });
                }
            }
        }
        Op::Skip => {
            ctx.call(code);
            it.skip_to_end();
            ctx.returned();
            ctx.close(Res::Skip);
        }
    }
}

fn panic_class(p: &Box<dyn std::any::Any + Send>) -> String {
    if let Some(i) = p.downcast_ref::<Injected>() {
        format!("injected:{}", i.0)
    } else {
        let m = LAST_PANIC.with(|c| c.borrow().clone());
        format!("unexpected:{}", m)
    }
}

/// runs one op; returns false if the execution is being torn down
fn run_op<C: ConcurrentIter>(it: &C, op: &Op, ctx: &mut Ctx) -> bool
where
    C::Item: Elem,
{
    match catch_unwind(AssertUnwindSafe(|| exec_op(it, op, ctx))) {
        Ok(()) => true,
        Err(p) => {
            if p.is::<Teardown>() {
                return false;
            }
            let class = panic_class(&p);
            ctx.on_panic(class);
            // the caller survives the panic; give the scheduler a point outside the failed call
            if catch_unwind(AssertUnwindSafe(|| sched::point(PointKind::OpEnd))).is_err() {
                return false;
            }
            true
        }
    }
}

pub fn run_script<C: ConcurrentIter>(it: &C, script: &Script, ctx: &mut Ctx) -> (bool, bool)
where
    C::Item: Elem,
{
    let mut overrun = false;
    for op in &script.pre {
        if !run_op(it, op, ctx) {
            return (false, overrun);
        }
    }
    if !script.drain.is_empty() {
        ctx.saw_end = false;
        let cap = ctx.info.len + 32;
        let mut i = 0;
        loop {
            if !run_op(it, &script.drain[i % script.drain.len()], ctx) {
                return (false, overrun);
            }
            if ctx.saw_end {
                break;
            }
            i += 1;
            if i > cap {
                overrun = true;
                break;
            }
        }
    }
    for op in &script.post {
        if !run_op(it, op, ctx) {
            return (false, overrun);
        }
    }
    (true, overrun)
}

pub fn drive<C: ConcurrentIter>(cfg: &ExecCfg, info: &SrcInfo, it: C) -> ExecOut
where
    C::Item: Elem,
{
    sched::RACE_MODE.store(cfg.race, Ordering::Relaxed);
    sched::PERTURB.store(cfg.perturb, Ordering::Relaxed);
    sched::CLOCK.store(1, Ordering::SeqCst);
    CLOSURE_CALLS.store(0, Ordering::Relaxed);
    CLOSURE_PANIC_AT.store(-1, Ordering::Relaxed);
    match cfg.inject {
        Inject::None => {}
        Inject::WrappedNext(k) => PROBE.panic_at.store(k, Ordering::Relaxed),
        Inject::Clone(k) => CLONE_PANIC_AT.store(k, Ordering::Relaxed),
        Inject::Closure(k) => CLOSURE_PANIC_AT.store(k, Ordering::Relaxed),
        Inject::Drop(k) => DROP_PANIC_AT.store(k, Ordering::Relaxed),
    }
    let tmd = std::time::Instant::now();
    let timing = std::env::var("OCV_TIMING").is_ok();
    let n = cfg.scripts.len();
    let mut logs: Vec<Vec<Rec>> = Vec::new();
    let mut overrun = false;
    let mut sched_report = None;
    let mut torn = false;
    match cfg.mode {
        Mode::Seq => {
            sched::SEQ_STUCK.store(false, Ordering::Relaxed);
            sched::SEQ_GUARD.store(true, Ordering::Relaxed);
            for (t, s) in cfg.scripts.iter().enumerate() {
                let mut ctx = Ctx::new(t, info);
                let (alive, o) = run_script(&it, s, &mut ctx);
                overrun |= o;
                logs.push(ctx.recs);
                if !alive {
                    break;
                }
            }
            sched::SEQ_GUARD.store(false, Ordering::Relaxed);
            torn = sched::SEQ_STUCK.load(Ordering::Relaxed);
        }
        Mode::Sched => {
            let s = Sched::new(n, cfg.policy.clone(), cfg.sched_seed, cfg.freeze);
            s.activate();
            let itr = &it;
            let sr = &*s;
            let res: Vec<(Vec<Rec>, bool)> = std::thread::scope(|scope| {
                let hs: Vec<_> = cfg
                    .scripts
                    .iter()
                    .enumerate()
                    .map(|(t, script)| {
                        scope.spawn(move || {
                            let mut ctx = Ctx::new(t, info);
                            let entered = catch_unwind(AssertUnwindSafe(|| sr.enter(t))).is_ok();
                            let mut o = false;
                            if entered {
                                let (alive, ov) = run_script(itr, script, &mut ctx);
                                o = ov;
                                if alive {
                                    sr.exit(t);
                                }
                            }
                            (ctx.recs, o)
                        })
                    })
                    .collect();
                sr.start();
                hs.into_iter().map(|h| h.join().expect("worker must not die")).collect()
            });
            s.deactivate();
            for (r, o) in res {
                logs.push(r);
                overrun |= o;
            }
            torn = s.aborted();
            sched_report = Some(s.report());
        }
        Mode::Free => {
            let gate = AtomicUsize::new(0);
            let itr = &it;
            let gate_r = &gate;
            let tids: Vec<std::sync::atomic::AtomicU64> = (0..n).map(|_| std::sync::atomic::AtomicU64::new(0)).collect();
            let done = std::sync::atomic::AtomicBool::new(false);
            let (tids_r, done_r) = (&tids, &done);
            let res: Vec<(Vec<Rec>, bool)> = std::thread::scope(|scope| {
                let monitor = if !cfg!(miri) { Some(scope.spawn(move || deadlock_monitor(tids_r, done_r))) } else { None };
                let hs: Vec<_> = cfg
                    .scripts
                    .iter()
                    .enumerate()
                    .map(|(t, script)| {
                        scope.spawn(move || {
                            sched::set_thread_seed(crate::util::mix(cfg.sched_seed, t as u64 + 1));
                            if !cfg!(miri) {
                                if let Ok(l) = std::fs::read_link("/proc/thread-self") {
                                    let tid = l.to_string_lossy().rsplit('/').next().and_then(|x| x.parse::<u64>().ok()).unwrap_or(0);
                                    tids_r[t].store(tid, Ordering::Relaxed);
                                }
                            }
                            let mut ctx = Ctx::new(t, info);
                            // start barrier: without it one thread drains the source before the others start
                            gate_r.fetch_add(1, Ordering::Relaxed);
                            while gate_r.load(Ordering::Relaxed) < n {
                                std::thread::yield_now();
                            }
                            let (_, o) = run_script(itr, script, &mut ctx);
                            (ctx.recs, o)
                        })
                    })
                    .collect();
                let r = hs.into_iter().map(|h| h.join().expect("worker must not die")).collect();
                done_r.store(true, Ordering::Relaxed);
                if let Some(m) = monitor {
                    m.thread().unpark();
                }
                r
            });
            for (r, o) in res {
                logs.push(r);
                overrun |= o;
            }
        }
    }
    if timing { eprintln!("  scripts done {:?}", tmd.elapsed()); }
    sched::PERTURB.store(0, Ordering::Relaxed);
    // faults are injected into the concurrent phase only
    PROBE.panic_at.store(-1, Ordering::Relaxed);
    CLONE_PANIC_AT.store(-1, Ordering::Relaxed);
    CLOSURE_PANIC_AT.store(-1, Ordering::Relaxed);

    // ---- finish: convert back or drop, everything joined (no pull in flight)
    let mut remainder: Option<Vec<Ident>> = None;
    let mut remainder_complete = false;
    let finish_panic;
    {
        let r = catch_unwind(AssertUnwindSafe(|| match cfg.finish {
            Finish::Drop => {
                drop(it);
                (None, false)
            }
            Finish::IntoSeq { take } => {
                let mut s = it.into_seq_iter();
                let mut v = Vec::new();
                let mut complete = false;
                let cap = info.len + 8;
                while v.len() < take {
                    match s.next() {
                        Some(x) => {
                            if info.non_fused && x.ident(info).id >= info.len as u64 {
                                // the harness itself polled a non-fused source past its end
                                complete = true;
                                break;
                            }
                            v.push(x.ident(info));
                            drop(x);
                            if v.len() > cap {
                                break;
                            }
                        }
                        None => {
                            complete = true;
                            break;
                        }
                    }
                }
                drop(s);
                (Some(v), complete)
            }
        }));
        match r {
            Ok((rem, c)) => {
                remainder = rem;
                remainder_complete = c;
                finish_panic = None;
            }
            Err(p) => finish_panic = Some(panic_class(&p)),
        }
    }

    if timing { eprintln!("  finish done {:?}", tmd.elapsed()); }
    let mut recs: Vec<Rec> = logs.into_iter().flatten().collect();
    recs.sort_by_key(|r| (r.t0, r.thread));

    let injected = cfg.inject != Inject::None;
    DROP_PANIC_AT.store(-1, Ordering::Relaxed);
    let hist = Hist {
        info,
        recs: &recs,
        nthreads: n,
        realtime: !cfg.race,
        remainder: remainder.as_deref(),
        remainder_complete,
        torn,
        injected,
        drain_overrun: overrun,
        finish_panic,
        sched: sched_report.as_ref(),
        frozen: cfg.freeze.is_some(),
        seq_stuck: cfg.mode == Mode::Seq && torn,
    };
    let tmc = std::time::Instant::now();
    let (violations, stats) = rules::check(&hist);
    if std::env::var("OCV_TIMING").is_ok() { eprintln!("rules {:?}", tmc.elapsed()); }
    ExecOut {
        violations,
        recs,
        sched: sched_report,
        torn,
        overlapping_calls: stats.overlapping_calls,
        delivered: stats.delivered,
        remainder_len: remainder.as_ref().map(|r| r.len()),
        remainder_ids: remainder.map(|r| r.iter().map(|i| i.id).collect()),
        remainder_complete,
        probe_handoffs: PROBE.handoffs.load(Ordering::Relaxed) as u64,
        probe_calls: PROBE.calls.load(Ordering::Relaxed) as u64,
    }
}
