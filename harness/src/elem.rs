//! Tracked element types, the ownership / destructor / clone ledger and element identification.
//!
//! Every element carries a unique id equal to its source position, plus a payload that is a
//! non-monotone function of (id, salt), so that a delivered value identifies the position it came
//! from and a swapped or fabricated value is visible on a single delivery.

use crate::util::mix;
use std::sync::atomic::{AtomicBool, AtomicI64, AtomicU32, AtomicU64, Ordering::Relaxed};

// (Miri keeps per-byte race-detector state for every allocation it touches: small ledgers there)
pub const MAX_IDS: usize = if cfg!(miri) { 96 } else { 1 << 14 };

#[allow(clippy::declare_interior_mutable_const)]
const Z32: AtomicU32 = AtomicU32::new(0);

/// destructor runs of *original* elements, per id
pub static DROPPED: [AtomicU32; MAX_IDS] = [Z32; MAX_IDS];
/// original elements created, per id
pub static CREATED: [AtomicU32; MAX_IDS] = [Z32; MAX_IDS];
/// clones made, per id
pub static CLONED: [AtomicU32; MAX_IDS] = [Z32; MAX_IDS];
/// destructor runs of clones, per id
pub static CLONE_DROPPED: [AtomicU32; MAX_IDS] = [Z32; MAX_IDS];
/// destructor runs of elements whose id is out of range or whose payload is corrupt
pub static GARBAGE_DROPS: AtomicU32 = AtomicU32::new(0);
/// when set, every element owns a heap canary: double drop / use after move become real
/// double-free / use-after-free for Miri, ASan and memcheck
pub static BOXED: AtomicBool = AtomicBool::new(false);
/// the k-th clone (0-based, counted per execution) panics; negative = never
pub static CLONE_PANIC_AT: AtomicI64 = AtomicI64::new(-1);
pub static CLONE_CALLS: AtomicI64 = AtomicI64::new(0);
/// the k-th destructor run of an original element (0-based, per execution) panics after it has been counted; negative = never
pub static DROP_PANIC_AT: AtomicI64 = AtomicI64::new(-1);
pub static DROP_CALLS: AtomicI64 = AtomicI64::new(0);
/// salt of the current execution (payload = mix(id, salt))
pub static SALT: AtomicU64 = AtomicU64::new(0);

pub fn ledger_reset(n_ids: usize, salt: u64) {
    let n = n_ids.min(MAX_IDS);
    for i in 0..n {
        DROPPED[i].store(0, Relaxed);
        CREATED[i].store(0, Relaxed);
        CLONED[i].store(0, Relaxed);
        CLONE_DROPPED[i].store(0, Relaxed);
    }
    GARBAGE_DROPS.store(0, Relaxed);
    CLONE_PANIC_AT.store(-1, Relaxed);
    CLONE_CALLS.store(0, Relaxed);
    DROP_PANIC_AT.store(-1, Relaxed);
    DROP_CALLS.store(0, Relaxed);
    SALT.store(salt, Relaxed);
}

#[inline]
pub fn pay_of(id: u64, salt: u64) -> u64 {
    mix(id, salt)
}

/// private panic payload of injected faults (never printed: raised with `resume_unwind`)
pub struct Injected(pub &'static str);

/// The tracked element.
#[derive(Debug)]
pub struct Tk {
    pub id: u32,
    /// 0 = original, 1 = clone
    pub gen: u32,
    pub pay: u64,
    canary: Option<Box<u64>>,
}

impl Tk {
    pub fn new(id: usize, salt: u64) -> Tk {
        let pay = pay_of(id as u64, salt);
        if id < MAX_IDS {
            CREATED[id].fetch_add(1, Relaxed);
        }
        Tk {
            id: id as u32,
            gen: 0,
            pay,
            canary: if BOXED.load(Relaxed) { Some(Box::new(pay)) } else { None },
        }
    }
    fn sane(&self) -> bool {
        (self.id as usize) < MAX_IDS
            && self.gen <= 1
            && self.pay == pay_of(self.id as u64, SALT.load(Relaxed))
            && self.canary.as_ref().map(|c| **c == self.pay).unwrap_or(true)
    }
}

impl Drop for Tk {
    fn drop(&mut self) {
        if !self.sane() {
            GARBAGE_DROPS.fetch_add(1, Relaxed);
            return;
        }
        let i = self.id as usize;
        if self.gen == 0 {
            DROPPED[i].fetch_add(1, Relaxed);
            let k = DROP_CALLS.fetch_add(1, Relaxed);
            if k == DROP_PANIC_AT.load(Relaxed) && !std::thread::panicking() {
                // the canary is released first: the panic must not leak it
                self.canary = None;
                std::panic::resume_unwind(Box::new(Injected("drop")));
            }
        } else {
            CLONE_DROPPED[i].fetch_add(1, Relaxed);
        }
    }
}

impl Clone for Tk {
    fn clone(&self) -> Tk {
        crate::sched::point(crate::sched::PointKind::User);
        let k = CLONE_CALLS.fetch_add(1, Relaxed);
        if k == CLONE_PANIC_AT.load(Relaxed) {
            std::panic::resume_unwind(Box::new(Injected("clone")));
        }
        if (self.id as usize) < MAX_IDS {
            CLONED[self.id as usize].fetch_add(1, Relaxed);
        }
        Tk {
            id: self.id,
            gen: 1,
            pay: self.pay,
            canary: self.canary.as_ref().map(|c| Box::new(**c)),
        }
    }
}

/// What the harness knows about the source of the current execution.
#[derive(Clone, Debug)]
pub struct SrcInfo {
    pub kind: &'static str,
    pub len: usize,
    /// address of element 0 and stride for kinds that deliver references (0 = n/a)
    pub base_addr: usize,
    pub stride: usize,
    /// first value of a range source
    pub range_start: usize,
    pub salt: u64,
    /// elements are moved out of a consumed collection / owning iterator
    pub consuming: bool,
    /// delivered items are clones / copies made by an adaptor
    pub adaptor: bool,
    /// wrapped arbitrary iterator (ticket protocol)
    pub wrapped: bool,
    /// try_get_len is expected to be exact (known-size kinds, exact-hint probes)
    pub exact_len: bool,
    /// first position this iterator can deliver (non-zero for a clone of a progressed iterator)
    pub start_pos: usize,
    /// the wrapped iterator is not fused: polled after its end it yields ghost elements with ids >= len
    pub non_fused: bool,
}

/// Identity of one delivered item.
#[derive(Clone, Copy, Debug, PartialEq, Eq)]
pub struct Ident {
    /// decoded source position, `u64::MAX` if the value does not decode to one
    pub id: u64,
    /// address of the referent for reference items, 0 otherwise
    pub addr: usize,
    /// payload matches the id (value was not fabricated / torn)
    pub sane: bool,
    pub is_clone: bool,
}

pub trait Elem: Send + Sync {
    fn ident(&self, info: &SrcInfo) -> Ident;
}

impl Elem for Tk {
    fn ident(&self, info: &SrcInfo) -> Ident {
        Ident { id: self.id as u64, addr: 0, sane: self.sane() && self.pay == pay_of(self.id as u64, info.salt), is_clone: self.gen == 1 }
    }
}

impl<'a> Elem for &'a Tk {
    fn ident(&self, info: &SrcInfo) -> Ident {
        Ident {
            id: self.id as u64,
            addr: *self as *const Tk as usize,
            sane: self.sane() && self.pay == pay_of(self.id as u64, info.salt),
            is_clone: self.gen == 1,
        }
    }
}

/// plain values of a range source: id = value - start
impl Elem for usize {
    fn ident(&self, info: &SrcInfo) -> Ident {
        let id = self.wrapping_sub(info.range_start) as u64;
        Ident { id, addr: 0, sane: true, is_clone: false }
    }
}

/// u64 sources (copied adaptor): low 24 bits = id, the rest = payload bits
pub fn u64_value(id: usize, salt: u64) -> u64 {
    (id as u64 & 0xff_ffff) | (pay_of(id as u64, salt) << 24)
}

impl Elem for u64 {
    fn ident(&self, info: &SrcInfo) -> Ident {
        let id = *self & 0xff_ffff;
        Ident { id, addr: 0, sane: *self == u64_value(id as usize, info.salt), is_clone: true }
    }
}

impl<'a> Elem for &'a u64 {
    fn ident(&self, info: &SrcInfo) -> Ident {
        let id = **self & 0xff_ffff;
        Ident { id, addr: *self as *const u64 as usize, sane: **self == u64_value(id as usize, info.salt), is_clone: false }
    }
}
