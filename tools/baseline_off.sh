#!/bin/bash
# Runs the pinned suite with the verification guard OFF and compares with /root/.vp/BASELINE.json.
# exit 0 iff every test of BASELINE.stable_pass passed.
cd /repo || exit 2
unset RUSTFLAGS
export CARGO_NET_OFFLINE=true
cargo nextest run --workspace --no-fail-fast --tool-config-file pb:/w/lib/nextest.toml --profile pb --test-threads 8 --offline >/tmp/baseline_off.log 2>&1
python3 - <<'PY'
import json,sys,xml.etree.ElementTree as ET
base=set(json.load(open('/root/.vp/BASELINE.json'))['stable_pass'])
t=ET.parse('/repo/target/nextest/pb/junit.xml')
passed=set(); failed=set()
for ts in t.getroot().iter('testsuite'):
    for tc in ts.iter('testcase'):
        name=f"{ts.get('name')}::{tc.get('name')}"
        bad=any(c.tag in('failure','error') for c in tc)
        (failed if bad else passed).add(name)
missing=sorted(base-passed)
print(f"baseline_off: passed={len(passed)} failed={len(failed)} baseline={len(base)} baseline_missing={len(missing)}")
for m in missing[:20]: print("  MISSING", m)
sys.exit(1 if missing else 0)
PY
