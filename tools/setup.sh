#!/bin/bash
# Builds every variant of the harness once, offline, from files on disk only.
set -u
cd "$(dirname "$0")/.."
export CARGO_NET_OFFLINE=true
unset RUSTFLAGS MIRIFLAGS
H=/verif/harness; T=/verif/target; CFG="--cfg orx_concurrent_iter_verif"
rc=0
( cd $H && RUSTFLAGS="$CFG" cargo build --offline --release --target-dir $T/hook ) || rc=1
( cd $H && RUSTFLAGS="$CFG" cargo build --offline --target-dir $T/hook ) || rc=1
( cd $H && cargo build --offline --release --target-dir $T/plain ) || rc=1
( cd $H && RUSTFLAGS="$CFG -Zsanitizer=address -Cforce-frame-pointers=yes" cargo +nightly build --offline --release --target x86_64-unknown-linux-gnu --target-dir $T/asan ) || echo "[setup] asan variant failed (checks that need it will be inconclusive)"
( cd $H && RUSTFLAGS="$CFG" MIRIFLAGS="-Zmiri-tree-borrows" cargo +nightly miri run --offline --target-dir $T/miri -- info ) || echo "[setup] miri variant failed"
( cd /verif/probes && cargo build --offline --bin all_good --target-dir $T/probes ) || rc=1
( cd /verif/probes && MIRIFLAGS="-Zmiri-tree-borrows" cargo +nightly miri run --offline --target-dir $T/probes-miri --bin all_good >/dev/null ) || echo "[setup] probes under miri failed"
# TSan needs -Zbuild-std (about 1-2 minutes); only the thorough tier of C07 uses it
( cd $H && RUSTFLAGS="$CFG -Zsanitizer=thread" cargo +nightly build --offline --release -Zbuild-std --target x86_64-unknown-linux-gnu --target-dir $T/tsan ) || echo "[setup] tsan variant failed (C07 thorough will be inconclusive for that part)"
exit $rc
