#!/bin/bash
# usage: sweep.sh <tier> <seed> [ids...]   -> one line per check
TIER=$1; SEED=$2; shift 2
IDS=${@:-C01 C02 C03 C04 C05 C06 C07 C08 C09 C10 C11 C12 C13 C14 C15 C16 C17 C18 C19}
cd /verif
for id in $IDS; do
  s=$(date +%s); out=$(VERIF_SEED=$SEED ./check $id $TIER 2>/tmp/sweep.err); rc=$?; e=$(date +%s)
  echo "$id $TIER seed=$SEED rc=$rc $((e-s))s viol=$(echo "$out" | grep -c '^VIOLATION') known=$(echo "$out" | grep -c '^KNOWN-FINDING') $(echo "$out" | grep -E '^(VIOLATION|INCONCLUSIVE|  rule)' | head -3 | tr '\n' ' ' | cut -c1-300)"
done
