#!/bin/bash
# usage: confirm_mutant.sh <ID> <k>     (agent output in /tmp/wt/<ID>.out/patch<k>.diff, demo<k>.rs)
# Confirms in a scratch worktree: patch applies, compiles (both cfgs), demo passes without / fails with the patch, suite passes with it.
ID=$1; K=$2; SUF=${3:-out}; OUT=/tmp/wt/$ID.$SUF; W=/tmp/confirm/$ID-$K-$SUF
export CARGO_NET_OFFLINE=true CARGO_TARGET_DIR=/tmp/confirm/target
mkdir -p /tmp/confirm
git -C /repo worktree remove --force $W 2>/dev/null
git -C /repo worktree add -q --detach $W HEAD || exit 2
cd $W
cp $OUT/demo$K.rs tests/zz_demo.rs
run_demo() { # $1 = label
  local r1 r2
  cargo test --offline --test zz_demo --no-run >/dev/null 2>&1; timeout 240 cargo test --offline --test zz_demo >/tmp/confirm/demo.log 2>&1; r1=$?
  RUSTFLAGS="--cfg orx_concurrent_iter_verif" cargo test --offline --test zz_demo --target-dir /tmp/confirm/target-hook --no-run >/dev/null 2>&1; RUSTFLAGS="--cfg orx_concurrent_iter_verif" timeout 240 cargo test --offline --test zz_demo --target-dir /tmp/confirm/target-hook >/tmp/confirm/demo_hook.log 2>&1; r2=$?
  echo "$1: demo rc plain=$r1 hook=$r2 ($(grep -h '^test result' /tmp/confirm/demo.log /tmp/confirm/demo_hook.log | tr '\n' ' ' | cut -c1-200))"
}
run_demo "WITHOUT patch"
git apply $OUT/patch$K.diff || { echo "PATCH DOES NOT APPLY"; exit 1; }
run_demo "WITH    patch"
rm tests/zz_demo.rs
timeout 900 cargo nextest run --workspace --no-fail-fast --offline >/tmp/confirm/suite.log 2>&1
echo "suite with patch: $(grep -E '^\s*Summary' /tmp/confirm/suite.log | tail -1) $(grep -E '^\s*(FAIL|SIGABRT|TIMEOUT)' /tmp/confirm/suite.log | sort -u | head -5 | tr '\n' ';')"
cd /; git -C /repo worktree remove --force $W
