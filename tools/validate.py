#!/usr/bin/env python3
"""validates MANIFEST.json and evidence/*.json against the schemas in /root/.vp"""
import json, sys, glob, os
import jsonschema
V = os.path.dirname(os.path.dirname(os.path.abspath(__file__)))
ok = True
def check(path, schema):
    global ok
    try:
        jsonschema.validate(json.load(open(path)), json.load(open(schema)))
        print("valid  ", path)
    except Exception as e:
        ok = False
        print("INVALID", path, str(e)[:300])
check(f"{V}/MANIFEST.json", "/root/.vp/MANIFEST.schema.json")
for p in sorted(glob.glob(f"{V}/evidence/*.json")):
    check(p, "/root/.vp/EVIDENCE.schema.json")
sys.exit(0 if ok else 1)
