#!/bin/bash
# usage: try_patch.sh <patch.diff> <tier> <ID> [<ID> ...]
# Applies a seeded change to /repo, runs the given checks, and undoes the change straight afterwards.
P=$1; TIER=$2; shift 2
cd /repo || exit 2
if ! git diff --quiet; then echo "/repo has uncommitted changes"; exit 2; fi
git apply "$P" || { echo "patch does not apply"; exit 2; }
trap 'git -C /repo checkout -- . ; git -C /repo clean -fdq src tests' EXIT
trap 'exit 143' TERM INT HUP
cd /verif
for id in "$@"; do
  s=$(date +%s)
  out=$(./check $id $TIER 2>/tmp/try_patch.err); rc=$?
  e=$(date +%s)
  echo "== $id rc=$rc $((e-s))s $(echo "$out" | grep -c '^VIOLATION') violation line(s)"
  echo "$out" | grep -E "^(VIOLATION|INCONCLUSIVE|  rule=)" | head -${MAXL:-4} | cut -c1-330
done
