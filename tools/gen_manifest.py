#!/usr/bin/env python3
import json, os, subprocess
V = os.path.dirname(os.path.dirname(os.path.abspath(__file__)))
props = [json.loads(l) for l in open(f"{V}/properties.jsonl")]
hook_commit = subprocess.run(["git", "-C", "/repo", "log", "--format=%h", "--grep=verif hooks"], capture_output=True, text=True).stdout.split()
T = {
 "C01": ("baton-scheduled + free-running executions, exactly-once checker over recorded histories (unique ids)", "4.C01"),
 "C02": ("recorded (index, value-identity, address) triples checked on every delivery under scheduled interleavings", "4.C02"),
 "C03": ("chunk contract checker (announced len vs yielded, consecutiveness, shortness only at the end) over scheduled histories", "4.C03"),
 "C04": ("forced-linearisation checker: per-thread monotonicity, real-time order, gap-free prefix at every quiescent instant", "4.C04"),
 "C05": ("history checker: no delivery / positive length after a returned end report, scripts keep pulling past the end", "4.C05"),
 "C06": ("history checker relative to the return of skip_to_end + destructor ledger; ASan on heap-owning elements", "4.C06"),
 "C07": ("vector-clock happens-before monitor fed by hooked atomics + probe overlap detector + Miri data-race detector (TSan in thorough)", "4.C07"),
 "C08": ("destructor/ownership ledger per element id after every history; ASan, Miri (valgrind in thorough) with heap-owning elements", "4.C08"),
 "C09": ("baton scheduler: logical stuck verdict + freeze adversary enumerated over every scheduling point of sampled schedules", "4.C09"),
 "C10": ("into_seq_iter output compared with the undelivered suffix computed from the recorded history", "4.C10"),
 "C11": ("length-query checker: exact at quiescence, bounds from calls started/returned, monotone, zero is definitive", "4.C11"),
 "C12": ("closure-argument ledger for for_each / enumerate_for_each / fold under scheduled interleavings, mixed with direct pulls", "4.C12"),
 "C13": ("lock-step differential: same script on the reference-yielding iterator and on its cloned/copied adaptor; clone ledger", "4.C13"),
 "C14": ("compile-gated executions: bad/good probe twins, rustc as gate, Miri / ownership ledger as run-time witness", "4.C14"),
 "C15": ("counting global allocator around repeated create/use/drop windows; Miri leak check (LSan, valgrind in thorough)", "4.C15"),
 "C16": ("complete enumeration of the boundary grid against a u128 reference model in optimized and debug builds; ASan", "4.C16"),
 "C17": ("cross-profile transcript differ (opt vs debug-assertions builds) + Miri as std-precondition monitor", "4.C17"),
 "C18": ("fault injection (panic at the k-th wrapped next / clone / closure call) under the baton scheduler: stuck verdict + ledgers", "4.C18"),
 "C19": ("multi-iterator / clone model on one collection; address identity of delivered references; source-intact checks", "4.C19"),
}
LEVEL = {"C09": "fault_enumeration", "C18": "fault_enumeration", "C14": "other"}
NOTE = {
 "C07": "happens-before is computed at the C11 level from the orderings the crate passes to its atomics; hardware memory models are not executed. Trusted: the hook shim reports every atomic of the crate, Miri's race detector.",
 "C09": "unbounded liveness is restated as bounded progress: logical stuck verdict (every live thread only loads for 600 consecutive steps) and a freeze adversary on sampled schedules; fairness of the seeded policies is probabilistic.",
 "C14": "the 'must not compile' half is a gate decided by rustc (trusted); a compiling bad probe is a violation only with a run-time witness; finite probe family. Open known findings F9, F10.",
 "C16": "the grid is a finite sample of the input space, enumerated completely in two build profiles. Open known finding F6b (sources longer than usize::MAX - 8).",
}
checks = []
for p in props:
    i = p["id"]
    tech, ref = T[i]
    lvl = LEVEL.get(i, "exploration")
    checks.append({
        "property_id": i,
        "quick_cmd": f"./check {i} quick",
        "thorough_cmd": f"./check {i} thorough",
        "evidence_file": f"/verif/evidence/{i}.json",
        "replay_cmd_template": f"./check {i} quick --replay {{path}}",
        "engine": "ocv",
        "level_claimed": {"category": lvl, "text": f"held on the executions produced by the run (counts in the evidence file); {tech}. Runtime monitoring decides only what the workload reaches; the verdict is three-valued (violated with replay / held on what was observed / inconclusive).", "design_ref": f"DESIGN.md section {ref}"},
        "level_note": NOTE.get(i, "trusted base: the harness (probes, ledgers, scheduler, checkers) and, for tool runs, Miri / ASan; the hook build differs from production only by the reporting shim around the same std atomics."),
        "technique": "runtime monitoring: " + tech,
    })
m = {
 "version": 1,
 "setup_cmd": "./tools/setup.sh",
 "hooks": {"guard": "orx_concurrent_iter_verif", "enable": "RUSTFLAGS=\"--cfg orx_concurrent_iter_verif\" (set by ./check for the hook-*, asan, tsan and miri build variants)", "baseline_off_cmd": "/verif/tools/baseline_off.sh", "source_commits": hook_commit, "add_only": True},
 "engines": [
   {"name": "ocv", "path": "/verif/harness", "serves_properties": [p["id"] for p in props], "kind_free_text": "Rust harness: script executor with history recording, baton scheduler + HB monitor (hook build), free-running and sequential modes, grid / transcript / leak / multi / lockstep / lowlevel engines; runs natively, under Miri, ASan, TSan, valgrind"},
   {"name": "c14probes", "path": "/verif/probes", "serves_properties": ["C14"], "kind_free_text": "bad/good probe program twins compiled against the current tree"},
   {"name": "check", "path": "/verif/check", "serves_properties": [p["id"] for p in props], "kind_free_text": "python driver: builds variants from /repo's working tree, shards, aggregates, known findings, evidence"}],
 "checks": checks,
 "not_applicable": [],
 "notes": "Every check rebuilds the harness against /repo's current working tree (cargo path dependency). Exit 0 held / 1 VIOLATION / 2 INCONCLUSIVE. Known findings: /verif/known_findings.json.",
}
json.dump(m, open(f"{V}/MANIFEST.json", "w"), indent=1)
print("checks:", len(checks))
