"""C17 — cross-profile transcript differ (E6) + Miri as the std-precondition monitor.

The same seeded histories are executed by the optimized harness (no debug assertions, no overflow
checks) and by the debug harness (both on). Every operation prints one canonical, address-free
line; the two transcripts are compared line by line. A child that dies is attributed to the case it
announced last and the run is resumed after it."""
import concurrent.futures as cf, hashlib, json, os, re, subprocess, time

STREAMS_Q = [("seq", "mixed", 6000, "1-2"), ("seq", "skip", 4000, "1-2"), ("seq", "drops", 4000, "1-2"), ("seq", "chunks", 3000, "1-2"), ("sched", "pulls", 3000, "2-4"), ("sched", "skip", 2000, "2-3")]

def transcript(ck, binp, mode, profile, execs, threads, seed, shard, nshards, boxed):
    """runs one shard to completion, resuming after every death; returns (cases: {id: [lines]}, deaths: {id: text})"""
    cases, deaths = {}, {}
    start = 0
    for _ in range(64):
        cmd = [binp, "transcript", f"--mode={mode}", f"--profile={profile}", f"--execs={execs}", f"--threads={threads}", f"--seed={seed}", f"--shard={shard}", f"--nshards={nshards}", f"--start={start}"] + (["--boxed=1"] if boxed else [])
        try:
            p = subprocess.run(cmd, capture_output=True, text=True, timeout=900, errors="replace", env=ck.base_env())
            rc, out, err = p.returncode, p.stdout, p.stderr
        except subprocess.TimeoutExpired as ex:
            rc, out, err = None, (ex.stdout or b"").decode(errors="replace") if isinstance(ex.stdout, bytes) else (ex.stdout or ""), "timeout"
        cur, lines, last_announced = None, [], None
        for l in out.splitlines():
            if l.startswith("CASE "):
                cur = int(l.split()[1])
                last_announced = cur
                lines = [l]
            elif l.startswith("ENDCASE "):
                if cur is not None:
                    cases[cur] = lines
                cur = None
            elif cur is not None:
                lines.append(l)
        if out.rstrip().endswith("DONE") and rc == 0:
            break
        if last_announced is None or rc is None:
            deaths[-1] = f"rc={rc} {err[-400:]}"
            break
        # died inside the case announced last
        deaths[last_announced] = f"exit status {rc}: {err[-600:].strip()}"
        start = last_announced + 1
    return cases, deaths

def run(ck, tier, seed, workdir):
    rel = ck.build("hook-rel")
    dbg = ck.build("hook-dbg")
    mult = 1 if tier == "quick" else 25
    nsh = 4
    tasks = []
    for (mode, profile, execs, threads) in STREAMS_Q:
        for sh in range(nsh):
            for which, binp in (("rel", rel), ("dbg", dbg)):
                tasks.append((mode, profile, execs * mult, threads, sh, which, binp))
    t0 = time.time()
    out = {}
    with cf.ThreadPoolExecutor(max_workers=ck.NCPU) as ex:
        futs = {ex.submit(transcript, ck, binp, mode, profile, execs, threads, seed, sh, nsh, True): (mode, profile, execs, threads, sh, which) for (mode, profile, execs, threads, sh, which, binp) in tasks}
        for f, k in futs.items():
            out[k] = f.result()
    recs, samples = [], []
    compared_cases = compared_lines = 0
    distinct = set()
    per_stream = {}
    notes = []
    for (mode, profile, execs, threads) in STREAMS_Q:
        execs *= mult
        for sh in range(nsh):
            rc_, rd = out[(mode, profile, execs, threads, sh, "rel")]
            dc_, dd = out[(mode, profile, execs, threads, sh, "dbg")]
            replay = ["transcript", f"--mode={mode}", f"--profile={profile}", f"--execs={execs}", f"--threads={threads}", f"--seed={seed}", "--boxed=1"]
            for cid in sorted(set(rd) | set(dd)):
                a, b = rd.get(cid), dd.get(cid)
                if cid == -1:
                    notes.append(f"transcript stream {mode}/{profile} shard {sh} broke down: rel={a} dbg={b}")
                    continue
                txt = (a or "") + (b or "")
                pre = "unsafe precondition" in txt
                if (a is None) != (b is None) or pre:
                    recs.append({"t": "violation", "engine": "xprofile", "rule": "XPROFILE-DEATH", "props": ["C17"], "kind": f"{mode}/{profile}",
                                 "detail": f"case {cid} of stream {mode}/{profile}: optimized build: {a or 'completes'} | debug build: {b or 'completes'}", "replay_args": replay + [f"--start={cid}", f"--execs={cid+1}"]})
                else:
                    notes.append(f"case {cid} of {mode}/{profile} kills both builds the same way ({(a or '')[:120]}): not a difference between the builds")
            for cid in sorted(set(rc_) & set(dc_)):
                la, lb = rc_[cid], dc_[cid]
                compared_cases += 1
                compared_lines += len(la)
                per_stream[f"{mode}/{profile}"] = per_stream.get(f"{mode}/{profile}", 0) + 1
                if len(la) >= 5:
                    distinct.add(hashlib.sha1("\n".join(la).encode()).hexdigest()[:16])
                if la != lb:
                    k = next((i for i in range(min(len(la), len(lb))) if la[i] != lb[i]), min(len(la), len(lb)))
                    recs.append({"t": "violation", "engine": "xprofile", "rule": "XPROFILE-DIFF", "props": ["C17"], "kind": f"{mode}/{profile}",
                                 "detail": f"{la[0]}: line {k} differs between the builds: optimized: {la[k] if k < len(la) else '<missing>'} | debug: {lb[k] if k < len(lb) else '<missing>'}",
                                 "replay_args": replay + [f"--start={cid}", f"--execs={cid+1}"]})
                elif len(samples) < 3 and len(la) >= 6 and cid % 97 == 3:
                    samples.append({"stream": f"{mode}/{profile}", "transcript_identical_in_both_builds": la[:14]})
    results = [{"label": "xprofile", "shard": 0, "variant": "hook-rel+hook-dbg", "cmd": [], "rc": 0, "recs": recs + [{"t": "probe"}], "wall": time.time() - t0, "status": "ok", "tool": None, "hash_file": None, "stderr_tail": ""}]
    for n in notes[:5]:
        results.append({"label": "xprofile", "shard": 0, "variant": "-", "cmd": [], "rc": 0, "recs": [{"t": "error", "error": n}], "wall": 0, "status": "ok", "tool": None, "hash_file": None, "stderr_tail": ""})
    # the boundary grid (ranges of F6b's territory excluded) in both builds: the outcome of every case must be the same
    def grid(binp, sh):
        q = subprocess.run([binp, "grid", "--skip-near-max=1", "--max-print=1000000", f"--shard={sh}", "--nshards=4"], capture_output=True, text=True, timeout=900, errors="replace", env=ck.base_env())
        rr, _ = ck.parse_lines(q.stdout)
        probs = {r["case"]["case"]: (r["detail"], r["case"]) for r in rr if r.get("t") == "violation" and r.get("case", {}).get("case") not in (None, "zero")}
        zero = sorted(r["detail"] + "|" + str(r.get("kind")) + "|" + str(r.get("len")) for r in rr if r.get("t") == "violation" and r.get("case", {}).get("case") == "zero")
        summ = [r for r in rr if r.get("t") == "summary"]
        return probs, zero, (summ[0]["cases"] if summ else 0), q.returncode
    grid_cases = 0
    with cf.ThreadPoolExecutor(max_workers=8) as ex:
        gr = {(w, sh): ex.submit(grid, b, sh) for sh in range(4) for w, b in (("rel", rel), ("dbg", dbg))}
        for sh in range(4):
            pr, zr, nr, rcr = gr[("rel", sh)].result()
            pd, zd, nd, rcd = gr[("dbg", sh)].result()
            grid_cases += nr
            if nr == 0 or nd == 0:
                notes.append(f"grid shard {sh} produced no summary in one of the builds (rel rc={rcr}, dbg rc={rcd})")
                continue
            for cid in sorted(set(pr) | set(pd), key=lambda x: str(x)):
                a, b = pr.get(cid), pd.get(cid)
                norm = lambda t: re.sub(r"\d{6,}", "N", t[0]) if t else None
                if norm(a) != norm(b):
                    case = (a or b)[1]
                    recs.append({"t": "violation", "engine": "xprofile", "rule": "XPROFILE-GRID", "props": ["C17"], "kind": case.get("kind"),
                                 "detail": f"boundary case {json.dumps(case)}: optimized build: {a[0] if a else 'as the model'} | debug build: {b[0] if b else 'as the model'}", "replay_args": ["grid", f"--only={str(cid).split(':')[0]}"]})
            if zr != zd:
                recs.append({"t": "violation", "engine": "xprofile", "rule": "XPROFILE-GRID", "props": ["C17"], "kind": "zero-chunk-size",
                             "detail": f"documented panics for chunk size 0: optimized build reports {zr or 'all present'} | debug build reports {zd or 'all present'}", "replay_args": ["grid"]})
    results[0]["recs"] = recs + [{"t": "probe"}]
    # Miri: std preconditions (its std is built with debug assertions and checks library UB)
    seeds = 4 if tier == "quick" else 32
    mj = [ck.miri("miri/std-preconditions", "seq", "chunks", 40, "all", (0, seeds), extra=[]), ck.miri("miri/std-preconditions-drops", "seq", "drops", 30, ck.CONSUMING, (0, seeds))]
    for j in mj:
        r = ck.run_job_shard(j, 0, seed, workdir)
        r["recs"] = [x for x in r["recs"] if x.get("t") != "summary"] + [{"t": "probe"}]
        r["hash_file"] = None
        results.append(r)
    coverage = {
        "evaluations": compared_cases,
        "distinct_nontrivial": len(distinct),
        "rule": "seeded histories (sequential and baton-scheduled) executed by two differently compiled harness binaries; one evaluation per history compared; distinct = distinct optimized-build transcripts with at least 5 lines",
        "samples": samples or [{"note": "no sample"}],
        "compared_lines": compared_lines,
        "grid_cases_compared_in_both_builds": grid_cases,
        "per_stream": per_stream,
        "programs": 2,
        "disagreements_checked": compared_cases,
        "deaths_rel": sum(len(out[k][1]) for k in out if k[5] == "rel"),
        "deaths_dbg": sum(len(out[k][1]) for k in out if k[5] == "dbg"),
        "miri_runs": [{"label": r["label"], "status": r["status"]} for r in results if r["variant"] == "miri"],
    }
    return results, coverage
