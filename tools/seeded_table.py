#!/usr/bin/env python3
"""Rewrites section 8.1 of DESIGN.md from /verif/seeded*/*/meta.json."""
import json, glob, os, re
V="/verif"
rows=[]
for d in sorted(glob.glob(f"{V}/seeded/*"))+sorted(glob.glob(f"{V}/seeded_own/*")):
    m=json.load(open(f"{d}/meta.json"))
    for c in m.get("caught_by",[]):
        if "error" in c:
            rows.append((m["id"],m["property"],m["what"],"(patch no longer applies)","—")); continue
        verdict={0:"**missed**",1:"caught",2:"inconclusive"}.get(c["exit"],str(c["exit"]))
        rules=", ".join(c.get("rules_engines",[])[:3])
        rows.append((m["id"],c["check"].split()[1],m["what"],verdict,rules))
    if not m.get("caught_by"):
        rows.append((m["id"],m["property"],m["what"],"(not run)",""))
out=["| seeded change | check | what it changes | quick check | first rules @ engines |","|---|---|---|---|---|"]
for r in rows:
    out.append("| "+" | ".join(x.replace("|","/") for x in r)+" |")
caught=sum(1 for r in rows if r[3]=="caught"); tot=len(rows)
text="\n".join(out)+f"\n\n{caught} of {tot} (change, check) pairs report a violation in the quick tier on the tree with the change applied; every check is silent on the unchanged tree.\n"
p=f"{V}/DESIGN.md"; s=open(p).read()
a=s.index("### 8.1 Which check catches which seeded change")
b=s.index("## 9. Threats to validity")
s=s[:a]+"### 8.1 Which check catches which seeded change\n\n`seeded/` = changes written by independent sub-agents (patch, demonstration and notes kept; confirmed with `tools/confirm_mutant.sh`), `seeded_own/` = the validation plan's own mutants (patch only). Recorded by `tools/seeded_run.py` (applies the patch to /repo, runs the owning quick check, reverts).\n\n"+text+"\n"+HISTORY+"\n"+s[b:] if False else s[:a]+"### 8.1 Which check catches which seeded change\n\n`seeded/` = changes written by independent sub-agents (patch, demonstration and notes kept; confirmed with `tools/confirm_mutant.sh`), `seeded_own/` = the validation plan's own mutants (patch only). Recorded by `tools/seeded_run.py` (applies the patch to /repo, runs the owning quick check, reverts).\n\n"+text+"\n@@HISTORY@@\n"+s[b:]
hist=open(f"{V}/tools/seeded_history.md").read() if os.path.exists(f"{V}/tools/seeded_history.md") else ""
s=s.replace("@@HISTORY@@\n",hist)
open(p,"w").write(s)
print(caught,"/",tot)
