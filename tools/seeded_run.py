#!/usr/bin/env python3
"""Runs the owning check(s) against every seeded change and records the outcome in its meta.json.
usage: seeded_run.py [dir-prefix ...]      (default: all of /verif/seeded and /verif/seeded_own)"""
import json, os, re, subprocess, sys, time, glob
V="/verif"
dirs=sorted(glob.glob(f"{V}/seeded/*")+glob.glob(f"{V}/seeded_own/*"))
if len(sys.argv)>1:
    dirs=[d for d in dirs if any(os.path.basename(d).startswith(p) for p in sys.argv[1:])]
for d in dirs:
    m=json.load(open(f"{d}/meta.json"))
    props=[m["property"]]+m.get("also",[])
    if subprocess.run(["git","-C","/repo","diff","--quiet"]).returncode!=0:
        print("/repo dirty, abort"); sys.exit(2)
    if subprocess.run(["git","-C","/repo","apply",f"{d}/patch.diff"]).returncode!=0:
        print(d,"patch does not apply"); m["caught_by"]=[{"error":"patch does not apply to current HEAD"}]; json.dump(m,open(f"{d}/meta.json","w"),indent=1); continue
    res=[]
    try:
        for p in props:
            t0=time.time()
            r=subprocess.run(["./check",p,"quick"],cwd=V,capture_output=True,text=True,timeout=3000)
            rules=sorted(set(re.findall(r"rule=(\S+) engine=(\S+)",r.stdout)))
            res.append({"check":f"./check {p} quick","exit":r.returncode,"violation_lines":r.stdout.count("\nVIOLATION")+r.stdout.startswith("VIOLATION"),"rules_engines":[f"{a}@{b}" for a,b in rules][:8],"seconds":round(time.time()-t0)})
            print(os.path.basename(d),p,"rc",r.returncode,[f"{a}@{b}" for a,b in rules][:4],round(time.time()-t0),"s",flush=True)
    finally:
        subprocess.run(["git","-C","/repo","checkout","--","."])
        subprocess.run(["git","-C","/repo","clean","-fdq","src","tests"])
    m["caught_by"]=res
    json.dump(m,open(f"{d}/meta.json","w"),indent=1)
print("SEEDED RUN DONE")
