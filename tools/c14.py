"""C14 — compile-gated executions (see DESIGN.md §C14).

Every probe is a minimal *bad* program paired with a *good* twin that differs only in the offending
type or scope. The twin must compile and run clean. The bad program is compiled against the
current /repo: rejected => the unsound execution cannot exist ("gated"); accepted => it is executed
under Miri and the UB report is the witness. The safe low-level call sequences are executed by the
harness with the ownership ledger (and under Miri for the witness of two owners)."""
import concurrent.futures as cf, glob, json, os, re, subprocess, time

BOUND = {"E0277", "E0599", "E0271", "E0308", "E0282"}
LIFE = {"E0597", "E0505", "E0499", "E0502", "E0716", "E0515", "E0506", "E0503", "E0373", "E0521", "E0700", "E0712", "E0713"}

def run(ck, tier, seed, workdir):
    PROBES = ck.PROBES
    tdir = os.path.join(ck.TARGET, "probes")
    meta = json.load(open(os.path.join(PROBES, "probes.json")))
    env = ck.base_env()
    results, table, samples = [], [], []
    t0 = time.time()
    # 1. dependencies + all good twins in one program
    p = subprocess.run(["cargo", "build", "--offline", "--bin", "all_good", "--target-dir", tdir], cwd=PROBES, env=env, capture_output=True, text=True)
    deps = os.path.join(tdir, "debug", "deps")
    rlibs = sorted(glob.glob(os.path.join(deps, "liborx_concurrent_iter-*.rlib")), key=os.path.getmtime)
    if not rlibs:
        raise ck.Inconclusive("the crate does not build for the probe programs: " + p.stderr[-500:])
    rlib = rlibs[-1]
    all_good_ok = p.returncode == 0

    def rustc(name):
        src = os.path.join(PROBES, "src", "bin", name + ".rs")
        out = os.path.join(workdir, name + ".rmeta")
        q = subprocess.run(["rustc", "--edition", "2021", "--crate-type", "bin", "--emit=metadata", "-L", "dependency=" + deps, "--extern", "orx_concurrent_iter=" + rlib, src, "-o", out], capture_output=True, text=True, env=env)
        codes = sorted(set(re.findall(r"error\[(E\d+)\]", q.stderr)))
        return name, q.returncode, codes, q.stderr

    names = sorted(meta)
    with cf.ThreadPoolExecutor(max_workers=ck.NCPU) as ex:
        bad = {n: r for n, r in zip(names, ex.map(lambda n: rustc(n + "_bad"), names))}
        good = {n: r for n, r in zip(names, ex.map(lambda n: rustc(n + "_good"), names))}

    # 2. the good twins run clean natively (and under Miri)
    good_run_ok = False
    if all_good_ok:
        q = subprocess.run([os.path.join(tdir, "debug", "all_good")], capture_output=True, text=True, timeout=300)
        good_run_ok = q.returncode == 0 and "all good twins ran" in q.stdout
    miri_good = None
    if all_good_ok:
        e = dict(env)
        e["MIRIFLAGS"] = "-Zmiri-tree-borrows" + ("" if tier == "quick" else " -Zmiri-many-seeds=0..8")
        q = subprocess.run(["cargo", "+nightly", "miri", "run", "--offline", "--target-dir", os.path.join(ck.TARGET, "probes-miri"), "--bin", "all_good"], cwd=PROBES, env=e, capture_output=True, text=True, timeout=1800)
        cls, excerpt = ck.classify_stderr(q.stderr)
        miri_good = {"rc": q.returncode, "class": cls, "excerpt": excerpt[:600]}

    recs = []
    gated = witnessed = inconcl = 0
    notes = []
    for n in names:
        _, brc, bcodes, berr = bad[n]
        _, grc, gcodes, gerr = good[n]
        row = {"probe": n, "class": meta[n]["class"], "claim": meta[n]["note"], "good_twin_compiles": grc == 0, "bad_rejected": brc != 0, "error_codes": bcodes}
        expected = BOUND if meta[n]["class"] == "bound" else LIFE
        if grc != 0:
            row["verdict"] = "inconclusive (good twin does not compile: the probe no longer matches the API)"
            inconcl += 1
            notes.append(f"probe {n}: good twin rejected {gcodes}")
        elif brc != 0:
            row["verdict"] = "gated" if set(bcodes) & expected else "gated (unexpected error class)"
            gated += 1
        else:
            # the bad program is expressible in safe code: execute it under Miri for the witness
            e = dict(env)
            e["MIRIFLAGS"] = "-Zmiri-tree-borrows -Zmiri-many-seeds=0..%d" % (4 if tier == "quick" else 16)
            q = subprocess.run(["cargo", "+nightly", "miri", "run", "--offline", "--target-dir", os.path.join(ck.TARGET, "probes-miri"), "--bin", n + "_bad"], cwd=PROBES, env=e, capture_output=True, text=True, timeout=1800)
            cls, excerpt = ck.classify_stderr(q.stderr)
            if cls in ("race", "memory", "ub", "precondition"):
                row["verdict"] = f"VIOLATION: compiles, and Miri reports {cls}"
                row["witness"] = excerpt[:700]
                witnessed += 1
                recs.append({"t": "violation", "engine": "probe", "probe": n, "rule": "PROBE-COMPILES", "props": ["C14"], "kind": meta[n]["class"],
                             "detail": f"safe program '{n}' ({meta[n]['note']}) compiles, and its execution under Miri contains {cls}: {excerpt[:500]}",
                             "replay_cmd": ["cargo", "+nightly", "miri", "run", "--offline", "--bin", n + "_bad"], "replay_cwd": PROBES})
            else:
                row["verdict"] = "inconclusive (compiles, but no run-time witness was produced)"
                inconcl += 1
                notes.append(f"probe {n}: compiles but Miri reported nothing (rc={q.returncode})")
        table.append(row)
    if not all_good_ok:
        notes.append("the combined program of all good twins does not build: " + p.stderr[-300:])
    elif not good_run_ok:
        notes.append("the good twins do not run clean natively")
    if miri_good and miri_good["class"]:
        notes.append(f"the good twins are not clean under Miri: {miri_good['class']}: {miri_good['excerpt'][:300]}")

    # 3. safe low-level call sequences (ownership ledger; Miri as witness in the thorough tier)
    low = []
    binp = ck.build("hook-rel")
    q = subprocess.run([binp, "lowlevel"], capture_output=True, text=True, timeout=300)
    lrecs, _ = ck.parse_lines(q.stdout)
    for r in lrecs:
        if r.get("t") != "lowlevel":
            continue
        low.append(r)
        if not r["ok"]:
            recs.append({"t": "violation", "engine": "lowlevel", "kind": r["kind"], "seq": r["seq"], "rule": "TWO-OWNERS", "props": ["C14"],
                         "detail": f"safe call sequence '{r['seq']}' on a consuming {r['kind']} iterator: destructor runs per element {r['destructor_runs']} (two owners of {r['two_owners']}, never dropped {r['never_dropped']})",
                         "replay_args": ["lowlevel", f"--kind={r['kind']}", f"--seq={r['seq']}"]})
    if not low:
        notes.append("lowlevel engine produced nothing: " + q.stderr[-300:])
    if tier != "quick":
        # the same sequences with heap-owning elements under Miri: double free is the witness
        e = dict(env)
        e["MIRIFLAGS"] = "-Zmiri-tree-borrows"
        e["RUSTFLAGS"] = ck.CFG
        for r in low:
            if r["ok"] and r["seq"] != "control":
                continue
            q = subprocess.run(["cargo", "+nightly", "miri", "run", "--offline", "--target-dir", os.path.join(ck.TARGET, "miri"), "--", "lowlevel", "--boxed=1", f"--kind={r['kind']}", f"--seq={r['seq']}"], cwd=ck.HARNESS, env=e, capture_output=True, text=True, timeout=1800)
            cls, excerpt = ck.classify_stderr(q.stderr)
            r["miri"] = cls or "clean"
            if r["seq"] == "control" and cls:
                recs.append({"t": "violation", "engine": "lowlevel", "kind": r["kind"], "seq": "control-miri", "rule": "TOOL-" + cls.upper(), "props": ["C14"], "detail": f"ordinary call sequence on {r['kind']} under Miri: {excerpt[:500]}"})

    evaluations = 2 * len(names) + len(low) + 1
    for row in table[:3] + [r for r in table if r["verdict"].startswith("VIOLATION")][:2]:
        samples.append(row)
    samples += low[:2]
    coverage = {
        "evaluations": evaluations,
        "distinct_nontrivial": gated + witnessed,
        "explanation": "finite family of minimal programs, each paired with a valid twin; the compiler's rejection is the gate, a run-time witness (Miri report, ownership ledger) decides programs that compile",
        "rule": "one evaluation per probe program (bad and good) and per low-level call sequence; distinct_nontrivial = bad programs that were decided (rejected with the twin accepted, or accepted with a run-time witness)",
        "programs": evaluations,
        "probes_gated": gated,
        "probes_compiling_with_witness": witnessed,
        "probes_inconclusive": inconcl,
        "good_twins_compile": sum(1 for n in names if good[n][1] == 0),
        "good_twins_run_clean_native": good_run_ok,
        "good_twins_miri": miri_good,
        "lowlevel_sequences": low,
        "probe_table": table,
        "samples": samples,
        "wall_probe_s": round(time.time() - t0, 1),
    }
    res = {"label": "probes", "shard": 0, "variant": "rustc+miri", "cmd": [], "rc": 0, "recs": recs + [{"t": "probe"}], "wall": time.time() - t0, "status": "ok", "tool": None, "hash_file": None, "stderr_tail": ""}
    results.append(res)
    for nte in notes:
        results.append({"label": "probes", "shard": 0, "variant": "rustc+miri", "cmd": [], "rc": 0, "recs": [{"t": "error", "error": nte}], "wall": 0, "status": "ok", "tool": None, "hash_file": None, "stderr_tail": ""})
    return results, coverage
