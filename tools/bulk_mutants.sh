#!/bin/bash
# usage: bulk_mutants.sh "C02/1 C02/2 ..." [suffix]   -> appends to /tmp/bulk.log
SUF=${2:-out}
for m in $1; do
  id=${m%/*}; k=${m#*/}
  echo "##### $m ($SUF) $(date +%H:%M:%S)" >> /tmp/bulk.log
  timeout 1500 /verif/tools/confirm_mutant.sh $id $k $SUF 2>&1 | cut -c1-420 >> /tmp/bulk.log
  MAXL=2 timeout 1500 /verif/tools/try_patch.sh /tmp/wt/$id.$SUF/patch$k.diff quick $id 2>&1 | cut -c1-320 >> /tmp/bulk.log
done
echo "BULK DONE" >> /tmp/bulk.log
